From Coq Require Import ZifyBool Permutation.
From NPS Require Import ListAux PySlice NumpySem Scatter BuildIdx XorBroadcast RLE RLEProof RLEOps CanonProof SliceAP BinaryProof RoundTrip RLEMisc MatrixDecode RaOps RLE2d RL2Any RL2AnyProof.
Open Scope Z_scope.

(* C17: the True runs of the joined rows of a matrix are a family of intervals whose union is the column-wise OR *)

Fixpoint true_runs (idx : list Z) (vals : list bool) (L : Z) : list (Z * Z) :=
  match idx, vals with
  | i :: idx', v :: vals' => (if v then [(i, match idx' with j :: _ => j | [] => L end)] else []) ++ true_runs idx' vals' L
  | _, _ => []
  end.
Fixpoint alt (vals : list bool) : Prop := match vals with a :: ((b :: _) as r) => a <> b /\ alt r | _ => True end.

Lemma true_runs_starts : forall idx vals L, map fst (true_runs idx vals L) = mask_filter idx vals.
Proof.
  induction idx as [|i idx IH]; intros [|v vals] L; try reflexivity. cbn [true_runs mask_filter]. rewrite map_app, IH. destruct v; reflexivity.
Qed.

Lemma true_runs_ends : forall idx vals L, length idx = length vals -> alt vals ->
  map snd (true_runs idx vals L) = mask_filter (tl idx) (map negb (tl vals)) ++ (if last vals false then [L] else []).
Proof.
  induction idx as [|i idx IH]; intros [|v vals] L Hl Ha; cbn in Hl; try discriminate; [reflexivity|].
  destruct idx as [|j idx]; destruct vals as [|w vals]; cbn in Hl; try discriminate.
  - cbn. destruct v; reflexivity.
  - destruct Ha as [Hvw Ha]. specialize (IH (w :: vals) L ltac:(cbn; lia) Ha).
    change (true_runs (i :: j :: idx) (v :: w :: vals) L) with ((if v then [(i, j)] else []) ++ true_runs (j :: idx) (w :: vals) L).
    rewrite map_app, IH. cbn [tl map mask_filter]. change (last (v :: w :: vals) false) with (last (w :: vals) false).
    destruct v, w; try congruence; cbn [map snd app negb]; reflexivity.
Qed.

(* row_join: alternating values, same decoding *)
Lemma repeat_two {X} (v : X) a b : 0 <= a -> 0 <= b -> repeat v (Z.to_nat a) ++ repeat v (Z.to_nat b) = repeat v (Z.to_nat (a + b)).
Proof. intros Ha Hb. rewrite <- repeat_app. f_equal. lia. Qed.

(* moving the first boundary back extends the first run *)
Lemma decode_extend (e0 i : Z) (rest : list Z) (v : bool) (vs : list bool) : rest <> [] -> e0 <= i -> i <= hd 0 rest ->
  decode bool (e0 :: rest, v :: vs) = repeat v (Z.to_nat (i - e0)) ++ decode bool (i :: rest, v :: vs).
Proof.
  intros Hne H1 H2. destruct rest as [|r0 rest]; [congruence|]. cbn [hd] in H2. rewrite !decode_cons2. rewrite app_assoc, repeat_two by lia. do 2 f_equal. lia.
Qed.

Lemma si_app_last (l : list Z) (x L : Z) : strictly_increasing (x :: l ++ [L]) -> x < L /\ Forall (fun y => x < y /\ y < L) l.
Proof.
  revert x. induction l as [|y l IH]; intros x H.
  - cbn in H. split; [lia|constructor].
  - cbn [app] in H. destruct H as [Hxy H]. destruct (IH y H) as [HyL HF]. split; [lia|]. constructor; [lia|].
    eapply Forall_impl; [|exact HF]. cbn; intros; lia.
Qed.

Lemma row_join_aux_spec : forall idx vs prev e0 L, length idx = length vs -> strictly_increasing (e0 :: idx ++ [L]) ->
  let r := row_join_aux prev idx vs in
  length (fst r) = length (snd r) /\ alt (prev :: snd r) /\ strictly_increasing (e0 :: fst r ++ [L]) /\
  decode bool (e0 :: fst r ++ [L], prev :: snd r) = decode bool (e0 :: idx ++ [L], prev :: vs).
Proof.
  induction idx as [|i idx IH]; intros [|v vs] prev e0 L Hl Hs; cbn in Hl; try discriminate.
  - cbn in *. repeat split; try reflexivity; try exact I; lia.
  - cbn [row_join_aux]. cbn [app] in Hs. pose proof Hs as [He0i Hs'].
    specialize (IH vs v i L ltac:(lia) Hs'). cbv zeta in IH. destruct (row_join_aux v idx vs) as [ri rv] eqn:E. cbn [fst snd] in *.
    destruct IH as (I1 & I2 & I3 & I4). destruct (Bool.eqb v prev) eqn:Ev.
    + apply Bool.eqb_prop in Ev. subst v. cbn [fst snd].
      destruct (si_app_last ri i L I3) as [HiL Hri].
      assert (Hs3 : strictly_increasing (e0 :: ri ++ [L])).
      { destruct ri as [|r0 ri]; cbn [app] in *; [cbn; lia|]. destruct I3 as [Hir0 I3]. split; [lia|exact I3]. }
      repeat split; try assumption.
      cbn [app]. rewrite (decode_cons2 bool e0 i (idx ++ [L]) prev (prev :: vs)). rewrite <- I4.
      apply (decode_extend e0 i (ri ++ [L]) prev rv); [destruct ri; discriminate|lia|].
      destruct ri as [|r0 ri]; cbn [app hd]; [lia|]. inversion Hri; subst. lia.
    + cbn [fst snd]. assert (Hne : v <> prev) by (intros ->; rewrite Bool.eqb_reflx in Ev; discriminate).
      split; [|split; [|split]].
      * cbn [length]. now rewrite I1.
      * split; [congruence|exact I2].
      * cbn [app]. split; [exact He0i|exact I3].
      * cbn [app]. rewrite !(decode_cons2 bool e0 i). f_equal. exact I4.
Qed.

(* ---------- a position is covered by a True run of a row iff the row's value there is True ---------- *)
Lemma covered_none (I : list (Z * Z)) p : Forall (fun se => p < fst se) I -> covered I p = false.
Proof. induction 1 as [|[s e] I H _ IH]; [reflexivity|]. rewrite covered_cons, IH. cbn [fst snd] in *. replace (s <=? p) with false by lia. reflexivity. Qed.
Lemma covered_app (I J : list (Z * Z)) p : covered (I ++ J) p = covered I p || covered J p.
Proof. unfold covered. apply existsb_app. Qed.

Lemma true_runs_from : forall idx vals L lo, Forall (fun x => lo <= x) idx -> Forall (fun se => lo <= fst se) (true_runs idx vals L).
Proof.
  induction idx as [|i idx IH]; intros [|v vals] L lo H; try constructor. inversion H as [|? ? Hi H']; subst. cbn [true_runs].
  apply Forall_app. split; [destruct v; repeat constructor; cbn; lia|now apply IH].
Qed.

Lemma nth_repeat_in {X} (v d : X) n k : (k < n)%nat -> nth k (repeat v n) d = v.
Proof. revert k. induction n as [|n IH]; intros k H; [lia|]. destruct k; [reflexivity|]. cbn. apply IH. lia. Qed.

Lemma true_runs_covered : forall idx vals i v L p, length idx = length vals -> strictly_increasing (i :: idx ++ [L]) -> i <= p < L ->
  covered (true_runs (i :: idx) (v :: vals) L) p = nth (Z.to_nat (p - i)) (decode bool (i :: idx ++ [L], v :: vals)) false.
Proof.
  induction idx as [|j idx IH]; intros [|w vals] i v L p Hl Hs Hp; cbn in Hl; try discriminate.
  - cbn [true_runs app]. rewrite app_nil_r. rewrite decode_cons2. unfold decode at 1. cbn [fst snd]. cbn. rewrite app_nil_r.
    rewrite nth_repeat_in by lia. destruct v; [|reflexivity]. rewrite covered_cons. cbn [fst snd covered existsb]. replace (i <=? p) with true by lia. replace (p <? L) with true by lia. reflexivity.
  - cbn [app] in Hs. destruct Hs as [Hij Hs].
    change (true_runs (i :: j :: idx) (v :: w :: vals) L) with ((if v then [(i, j)] else []) ++ true_runs (j :: idx) (w :: vals) L).
    rewrite covered_app. cbn [app]. rewrite decode_cons2.
    destruct (Z.lt_ge_cases p j) as [Hpj|Hpj].
    + rewrite app_nth1 by (rewrite repeat_length; lia). rewrite nth_repeat_in by lia.
      rewrite (covered_none (true_runs (j :: idx) (w :: vals) L) p).
      * destruct v; [|reflexivity]. rewrite covered_cons. cbn [fst snd covered existsb]. replace (i <=? p) with true by lia. replace (p <? j) with true by lia. reflexivity.
      * eapply Forall_impl; [|apply (true_runs_from (j :: idx) (w :: vals) L j)]; [cbn; intros; lia|].
        constructor; [lia|]. destruct (si_app_last idx j L Hs) as [_ HF]. eapply Forall_impl; [|exact HF]. cbn; intros; lia.
    + rewrite app_nth2 by (rewrite repeat_length; lia). rewrite repeat_length.
      replace (Z.to_nat (p - i) - Z.to_nat (j - i))%nat with (Z.to_nat (p - j)) by lia.
      rewrite <- (IH vals j w L p ltac:(lia) Hs ltac:(lia)).
      destruct v; [|reflexivity]. rewrite covered_cons. cbn [fst snd]. replace (p <? j) with false by lia. rewrite Bool.andb_false_r. reflexivity.
Qed.

(* ---------- rows ---------- *)
Definition nz (v : Z) : bool := negb (v =? 0).
Definition row_ok (L : Z) (r : list Z * list Z) : Prop :=
  exists idx z zs, fst r = 0 :: idx /\ snd r = z :: zs /\ length idx = length zs /\ strictly_increasing (0 :: idx ++ [L]).
Definition jrow (r : list Z * list Z) : list Z * list bool := row_join (fst r) (map nz (snd r)).
Definition row_dense (L : Z) (r : list Z * list Z) : list bool := decode bool (fst r ++ [L], map nz (snd r)).

Lemma jrow_spec L r : row_ok L r ->
  exists ri v rv, jrow r = (0 :: ri, v :: rv) /\ length ri = length rv /\ alt (v :: rv) /\ strictly_increasing (0 :: ri ++ [L]) /\
                  decode bool (0 :: ri ++ [L], v :: rv) = row_dense L r.
Proof.
  intros (idx & z & zs & E1 & E2 & Hl & Hs). unfold jrow, row_dense. rewrite E1, E2. cbn [map row_join].
  pose proof (row_join_aux_spec idx (map nz zs) (nz z) 0 L ltac:(now rewrite map_length) Hs) as H. cbv zeta in H.
  destruct (row_join_aux (nz z) idx (map nz zs)) as [ri rv]. cbn [fst snd] in H. destruct H as (H1 & H2 & H3 & H4).
  exists ri, (nz z), rv. repeat split; assumption.
Qed.

Lemma true_runs_wf : forall idx vals i L, strictly_increasing (i :: idx ++ [L]) ->
  Forall (fun se => i <= fst se /\ fst se < snd se /\ snd se <= L) (true_runs (i :: idx) vals L).
Proof.
  induction idx as [|j idx IH]; intros [|v vals] i L Hs; try constructor.
  - cbn [true_runs]. destruct v; [|constructor]. cbn in Hs. repeat constructor; cbn; lia.
  - change (true_runs (i :: j :: idx) (v :: vals) L) with ((if v then [(i, j)] else []) ++ true_runs (j :: idx) vals L).
    cbn [app] in Hs. destruct Hs as [Hij Hs]. destruct (si_app_last idx j L Hs) as [HjL _]. apply Forall_app. split.
    + destruct v; [|constructor]. repeat constructor; cbn; lia.
    + eapply Forall_impl; [|apply (IH vals j L Hs)]. cbn; intros; lia.
Qed.

Lemma covered_flat_map {X} (f : X -> list (Z * Z)) (l : list X) p : covered (flat_map f l) p = existsb (fun x => covered (f x) p) l.
Proof. induction l as [|x l IH]; [reflexivity|]. cbn [flat_map existsb]. now rewrite covered_app, IH. Qed.
Lemma map_flat_map {X Y W} (g : Y -> W) (f : X -> list Y) (l : list X) : map g (flat_map f l) = flat_map (fun x => map g (f x)) l.
Proof. induction l as [|x l IH]; [reflexivity|]. cbn [flat_map]. now rewrite map_app, IH. Qed.
Lemma flat_map_ext_in {X Y} (f g : X -> list Y) l : (forall x, In x l -> f x = g x) -> flat_map f l = flat_map g l.
Proof. induction l as [|x l IH]; intros H; [reflexivity|]. cbn [flat_map]. rewrite (H x (or_introl eq_refl)), IH; [reflexivity|]. intros y Hy. apply H. now right. Qed.
Lemma flat_map_app_perm {X Y} (f g : X -> list Y) l : Permutation (flat_map (fun x => f x ++ g x) l) (flat_map f l ++ flat_map g l).
Proof.
  induction l as [|x l IH]; [reflexivity|]. cbn [flat_map]. rewrite IH. rewrite <- !app_assoc. apply Permutation_app_head.
  rewrite !app_assoc. apply Permutation_app_tail. apply Permutation_app_comm.
Qed.
Lemma flat_map_const_L {X} (b : X -> bool) (L : Z) (l : list X) : flat_map (fun x => if b x then [L] else []) l = repeat L (length (filter b l)).
Proof. induction l as [|x l IH]; [reflexivity|]. cbn [flat_map filter]. destruct (b x); cbn [app length repeat]; now rewrite IH. Qed.
Lemma map2_map_r {X Y Y' W} (f : X -> Y' -> W) (g : Y -> Y') : forall (a : list X) (b : list Y), map2 f a (map g b) = map (fun p => f (fst p) (g (snd p))) (combine a b).
Proof. induction a as [|x a IH]; intros [|y b]; try reflexivity. cbn [map map2 combine fst snd]. now rewrite IH. Qed.
Lemma zsorted_app_repeat : forall l L k, zsorted l -> Forall (fun x => x <= L) l -> zsorted (l ++ repeat L k).
Proof.
  induction l as [|x l IH]; intros L k Hs HF.
  - cbn [app]. induction k as [|k IHk]; [exact I|]. destruct k; cbn; [exact I|]. split; [lia|exact IHk].
  - inversion HF as [|? ? Hx HF']; subst. destruct l as [|y l].
    + cbn [app]. destruct k; cbn; [exact I|]. split; [lia|]. apply (IH L (S k) I HF').
    + destruct Hs as [Hxy Hs]. cbn [app]. split; [exact Hxy|]. apply (IH L k Hs HF').
Qed.

Lemma Forall_flat_map {X Y} (P : Y -> Prop) (f : X -> list Y) l : (forall x, In x l -> Forall P (f x)) -> Forall P (flat_map f l).
Proof. induction l as [|x l IH]; intros H; [constructor|]. cbn [flat_map]. apply Forall_app. split; [apply H; now left|apply IH; intros y Hy; apply H; now right]. Qed.
Lemma existsb_map {X Y} (f : Y -> bool) (g : X -> Y) l : existsb f (map g l) = existsb (fun x => f (g x)) l.
Proof. induction l as [|x l IH]; [reflexivity|]. cbn [map existsb]. now rewrite IH. Qed.
Lemma existsb_ext_in {X} (f g : X -> bool) l : (forall x, In x l -> f x = g x) -> existsb f l = existsb g l.
Proof. induction l as [|x l IH]; intros H; [reflexivity|]. cbn [existsb]. rewrite (H x (or_introl eq_refl)), IH; [reflexivity|]. intros y Hy. apply H. now right. Qed.

(* any(axis=0) of the matrix variant: position p of the result is True iff some row is True at p *)
Theorem col_any_correct (x : rl2) (L : Z) : r_len x = Some L -> 0 <= L -> Forall (row_ok L) (combine (r_idx x) (r_val x)) ->
  decode bool (col_any x)
  = map (fun p => existsb (fun r => nth (Z.to_nat p) (row_dense L r) false) (combine (r_idx x) (r_val x))) (ap 0 L 1).
Proof.
  intros HL H0 HR. set (R := combine (r_idx x) (r_val x)) in *.
  rewrite (col_any_is_sweep x L HL). cbv zeta.
  change (map (map (fun v : Z => negb (v =? 0))) (r_val x)) with (map (map nz) (r_val x)).
  rewrite (map2_map_r row_join (map nz) (r_idx x) (r_val x)). fold R. change (fun p : list Z * list Z => row_join (fst p) (map nz (snd p))) with jrow.
  set (rows' := map jrow R).
  set (X1 := flat_map (fun r : list Z * list bool => mask_filter (fst r) (snd r)) rows').
  set (X2 := flat_map (fun r : list Z * list bool => mask_filter (tl (fst r)) (map negb (tl (snd r)))) rows').
  set (I := flat_map (fun r : list Z * list bool => true_runs (fst r) (snd r) L) rows').
  (* every joined row *)
  assert (Hrow : forall r', In r' rows' -> exists r ri v rv, In r R /\ r' = (0 :: ri, v :: rv) /\ length ri = length rv /\ alt (v :: rv) /\
                   strictly_increasing (0 :: ri ++ [L]) /\ decode bool (0 :: ri ++ [L], v :: rv) = row_dense L r).
  { intros r' Hin. unfold rows' in Hin. apply in_map_iff in Hin as (r & <- & Hr). rewrite Forall_forall in HR.
    destruct (jrow_spec L r (HR r Hr)) as (ri & v & rv & E & A & B & C & D). exists r, ri, v, rv. repeat split; assumption. }
  assert (E1 : map fst I = X1).
  { unfold I, X1. rewrite map_flat_map. apply flat_map_ext_in. intros r' _. apply true_runs_starts. }
  assert (E2 : map snd I = flat_map (fun r : list Z * list bool => mask_filter (tl (fst r)) (map negb (tl (snd r))) ++ (if last (snd r) false then [L] else [])) rows').
  { unfold I. rewrite map_flat_map. apply flat_map_ext_in. intros r' Hin. destruct (Hrow r' Hin) as (r & ri & v & rv & _ & -> & A & B & _ & _).
    cbn [fst snd]. apply true_runs_ends; [cbn [length]; now rewrite A|exact B]. }
  assert (P2 : Permutation (map snd I) (X2 ++ repeat L (length (filter (fun r : list Z * list bool => last (snd r) false) rows')))).
  { rewrite E2. rewrite flat_map_app_perm. fold X2. now rewrite flat_map_const_L. }
  assert (HI : Forall (fun se : Z * Z => 0 <= fst se /\ fst se < snd se /\ snd se <= L) I).
  { unfold I. apply Forall_flat_map. intros r' Hin. destruct (Hrow r' Hin) as (r & ri & v & rv & _ & -> & _ & _ & C & _). cbn [fst snd]. apply true_runs_wf. exact C. }
  set (k' := length (filter (fun r : list Z * list bool => last (snd r) false) rows')) in *.
  assert (Hk : (length (zsort X1) - length (zsort X2))%nat = k').
  { pose proof (Permutation_length (zsort_perm X1)) as L1. pose proof (Permutation_length (zsort_perm X2)) as L2.
    pose proof (Permutation_length P2) as L3. rewrite app_length, repeat_length, map_length in L3.
    assert (L4 : length X1 = length I) by (rewrite <- E1; apply map_length). lia. }
  rewrite Hk.
  rewrite (sweep_intervals I (zsort X1) (zsort X2 ++ repeat L k') L).
  - apply map_ext_in. intros p Hp. apply in_ap in Hp. unfold I. rewrite covered_flat_map. unfold rows'. rewrite existsb_map.
    apply existsb_ext_in. intros r Hr. assert (Hin : In (jrow r) rows') by (unfold rows'; now apply in_map).
    destruct (Hrow (jrow r) Hin) as (r0 & ri & v & rv & _ & E & A & _ & C & _). rewrite Forall_forall in HR.
    destruct (jrow_spec L r (HR r Hr)) as (ri' & v' & rv' & E' & A' & _ & C' & D'). rewrite E'. cbn [fst snd].
    rewrite (true_runs_covered ri' rv' 0 v' L p A' C' ltac:(lia)). rewrite Z.sub_0_r. now rewrite D'.
  - rewrite E1. symmetry. apply zsort_perm.
  - rewrite P2. apply Permutation_app_tail. symmetry. apply zsort_perm.
  - apply zsort_sorted.
  - apply zsorted_app_repeat; [apply zsort_sorted|]. apply Forall_forall. intros e He.
    assert (Hin : In e (map snd I)).
    { eapply Permutation_in; [symmetry; exact P2|]. apply in_or_app. left. eapply Permutation_in; [symmetry; apply zsort_perm|exact He]. }
    apply in_map_iff in Hin as (se & <- & Hse). rewrite Forall_forall in HI. specialize (HI se Hse). lia.
  - exact HI.
  - exact H0.
Qed.
Print Assumptions col_any_correct.

(* ---------- the matrix variant as built by from_matrix ---------- *)
Lemma change_mask_length : forall l o, length (change_mask o l) = length l.
Proof. induction l as [|x l IH]; intros o; [reflexivity|]. cbn [change_mask length]. now rewrite IH. Qed.
Lemma force_last_length m : length (force_last m) = length m.
Proof.
  unfold force_last. destruct m as [|b m]; [reflexivity|]. rewrite app_length. cbn [length].
  assert (H : length (removelast (b :: m)) = length m).
  { revert b. induction m as [|c m IH]; intros b; [reflexivity|]. change (removelast (b :: c :: m)) with (b :: removelast (c :: m)). cbn [length]. now rewrite IH. }
  rewrite H. lia.
Qed.
Lemma force_last_head b m : exists m', force_last (b :: m) = (match m with [] => true | _ => b end) :: m'.
Proof. unfold force_last. destruct m as [|c m]; [exists []; reflexivity|]. change (removelast (b :: c :: m)) with (b :: removelast (c :: m)). eexists. reflexivity. Qed.

Lemma si_app_end : forall (l : list Z) (x L : Z), strictly_increasing (x :: l) -> Forall (fun y => y < L) (x :: l) -> strictly_increasing (x :: l ++ [L]).
Proof.
  induction l as [|y l IH]; intros x L Hs HF.
  - inversion HF; subst. cbn. lia.
  - destruct Hs as [Hxy Hs]. inversion HF as [|? ? Hx HF']; subst. cbn [app]. split; [exact Hxy|]. now apply IH.
Qed.

Lemma matrix_row_ok (row : list Z) (L : Z) : zlen row = L -> 1 <= L ->
  let st := flatnonzero (force_last (change_mask None row)) in
  row_ok L (st, map (fun p => nth (Z.to_nat p) row 0) st) /\ row_dense L (st, map (fun p => nth (Z.to_nat p) row 0) st) = map nz row.
Proof.
  intros Hlen HL st. split.
  - destruct row as [|x xs]; [unfold zlen in Hlen; cbn in Hlen; lia|].
    assert (Hmask : exists m', force_last (change_mask None (x :: xs)) = true :: m').
    { cbn [change_mask]. destruct (force_last_head true (change_mask (Some x) xs)) as [m' E]. rewrite E. destruct (change_mask (Some x) xs); eexists; reflexivity. }
    destruct Hmask as [m' Em]. unfold st, flatnonzero. rewrite Em. cbn [fnz_from].
    pose proof (fnz_strict 0 (true :: m')) as Hsi. pose proof (fnz_lt 0 (true :: m')) as Hlt. cbn [fnz_from] in Hsi, Hlt.
    assert (HzL : 0 + zlen (true :: m') = L).
    { rewrite <- Em. unfold zlen. rewrite force_last_length, change_mask_length. unfold zlen in Hlen. lia. }
    rewrite HzL in Hlt.
    exists (fnz_from (0 + 1) m'), (nth (Z.to_nat 0) (x :: xs) 0), (map (fun p => nth (Z.to_nat p) (x :: xs) 0) (fnz_from (0 + 1) m')).
    cbn [fst snd map]. repeat split; try reflexivity; [now rewrite map_length|]. now apply si_app_end.
  - (* what the row decodes to: from_matrix_decode on the one-row matrix *)
    pose proof (from_matrix_decode [row] L HL ltac:(constructor; [exact Hlen|constructor])) as Hd.
    unfold rl2_decode, rl2_rows, from_matrix in Hd. cbn [r_idx r_val r_len map map2] in Hd. unfold row_rla in Hd. cbn [r_len] in Hd. rewrite Hlen in Hd.
    injection Hd as Hd. fold st in Hd. unfold row_dense. cbn [fst snd].
    change (map nz (map (fun p => nth (Z.to_nat p) row 0) st)) with (snd (rl_map nz (st ++ [L], map (fun p => nth (Z.to_nat p) row 0) st))).
    change (st ++ [L]) with (fst (rl_map nz (st ++ [L], map (fun p => nth (Z.to_nat p) row 0) st))) at 1.
    rewrite <- surjective_pairing. rewrite (rl_map_correct nz). now rewrite Hd.
Qed.

Theorem col_any_matrix (M : list (list Z)) (L : Z) : M <> [] -> 1 <= L -> Forall (fun r => zlen r = L) M ->
  decode bool (col_any (from_matrix M)) = map (fun p => existsb (fun row => nz (nth (Z.to_nat p) row 0)) M) (ap 0 L 1).
Proof.
  intros Hne HL Hall.
  assert (Hrl : r_len (from_matrix M) = Some L) by (destruct M as [|r M]; [congruence|]; inversion Hall; subst; reflexivity).
  set (st := fun row : list Z => flatnonzero (force_last (change_mask None row))).
  assert (HR : combine (r_idx (from_matrix M)) (r_val (from_matrix M)) = map (fun row => (st row, map (fun p => nth (Z.to_nat p) row 0) (st row))) M).
  { unfold from_matrix. cbn [r_idx r_val]. fold st. clear. induction M as [|r M IH]; [reflexivity|]. cbn [map combine]. now rewrite IH. }
  rewrite (col_any_correct (from_matrix M) L Hrl ltac:(lia)).
  - rewrite HR. apply map_ext_in. intros p Hp. apply in_ap in Hp. rewrite existsb_map. apply existsb_ext_in. intros row Hrow.
    rewrite Forall_forall in Hall. destruct (matrix_row_ok row L (Hall row Hrow) HL) as [_ Hd]. cbv zeta in Hd. fold (st row) in Hd. rewrite Hd.
    rewrite (nth_indep _ false (nz 0)) by (rewrite map_length; specialize (Hall row Hrow); unfold zlen in Hall; lia). now rewrite map_nth.
  - rewrite HR. apply Forall_forall. intros r Hr. apply in_map_iff in Hr as (row & <- & Hrow). rewrite Forall_forall in Hall.
    exact (proj1 (matrix_row_ok row L (Hall row Hrow) HL)).
Qed.
Print Assumptions col_any_matrix.
