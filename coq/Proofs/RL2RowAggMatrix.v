From Coq Require Import ZifyBool.
From NPS Require Import ListAux PySlice NumpySem Scatter BuildIdx XorBroadcast RLE RLEProof RLEOps RLEMisc RLEReduce RaOps RLE2d RL2Proof RL2RowAgg RL2RowAggProof RoundTrip MatrixDecode RL2Any RL2AnyProof RL2AnyRows.
Open Scope Z_scope.

(* C17: any / all along the rows of the matrix variant, for every matrix the encoder accepts (rows of one width L >= 1) *)
Lemma from_matrix_rows_ok (M : list (list Z)) (L : Z) : M <> [] -> 1 <= L -> Forall (fun r => zlen r = L) M ->
  Forall (row_runs_ok (from_matrix M)) (rows_of2 (from_matrix M)).
Proof.
  intros Hne HL Hall.
  assert (EL : r_len (from_matrix M) = Some L).
  { unfold from_matrix. cbn [r_len]. destruct M as [|r0 M']; [congruence|]. inversion Hall; subst. reflexivity. }
  unfold rows_of2, row_runs_ok, row_rla. rewrite EL. unfold from_matrix. cbn [r_idx r_val]. rewrite combine_map_both.
  apply Forall_map. eapply Forall_impl; [|exact Hall]. intros row Hrow. cbv beta zeta. cbn [fst snd].
  pose proof (matrix_row_ok row L Hrow HL) as Hm. cbv zeta in Hm. destruct Hm as [(idx & z & zs & E1 & E2 & E3 & E4) _]. cbn [fst snd] in E1, E2.
  rewrite E2, E1. change ((0 :: idx) ++ [L]) with (0 :: idx ++ [L]).
  destruct (RoundTrip.strict_diffs (idx ++ [L]) 0 E4 ltac:(destruct idx; discriminate)) as (D1 & _ & _ & D4).
  split; [exact D1|]. rewrite D4, app_length. cbn [length]. lia.
Qed.

Theorem matrix_row_aggregates (M : list (list Z)) (L : Z) : M <> [] -> 1 <= L -> Forall (fun r => zlen r = L) M ->
  rl2_any_rows (from_matrix M) = map (existsb nz) M /\ rl2_all_rows (from_matrix M) = map (forallb nz) M.
Proof.
  intros Hne HL Hall. pose proof (from_matrix_rows_ok M L Hne HL Hall) as Hok.
  assert (Hlen : length (r_idx (from_matrix M)) = length (r_val (from_matrix M))) by (unfold from_matrix; cbn [r_idx r_val]; now rewrite !map_length).
  rewrite (rl2_any_rows_correct _ Hlen Hok), (rl2_all_rows_correct _ Hlen Hok). now rewrite (from_matrix_decode M L HL Hall).
Qed.
Print Assumptions matrix_row_aggregates.
