From NPS Require Import ListAux PySlice NumpySem BuildIdx.
Open Scope Z_scope.

(* C13: BitArray (bitarray.py) on unsigned 64-bit registers *)
Definition W : Z := 64.
Definition wrap64 (x : Z) : Z := x mod 2 ^ W.
Definition shl64 (x s : Z) : Z := wrap64 (Z.shiftl x s).       (* numpy: uint64 << s, s = 64 gives 0 *)
Definition shr64 (x s : Z) : Z := Z.shiftr x s.

(* a[i::k] *)
Fixpoint stride_from {X} (l : list X) (skip k : nat) : list X :=
  match l with
  | [] => []
  | x :: r => match skip with O => x :: stride_from r (k - 1) k | S s => stride_from r s k end
  end.
Definition strided {X} (l : list X) (i k : nat) : list X := stride_from l i k.

(* bits[:size] |= xs *)
Fixpoint or_prefix (bits xs : list Z) : list Z :=
  match bits, xs with b :: bs, x :: xs' => Z.lor b x :: or_prefix bs xs' | _, _ => bits end.

Record bitarray := { ba_data : list Z ; ba_stride : Z ; ba_len : Z }.

(* BitArray.pack L24-52 *)
Definition pack (a : list Z) (b : Z) : bitarray :=
  let k := Z.to_nat (W / b) in
  let bits0 := strided a 0 k in
  let bits := fold_left (fun bits i => or_prefix bits (map (fun x => shl64 x (b * Z.of_nat i)) (strided a i k)))
                        (seq 1 (k - 1)) bits0 in
  {| ba_data := bits ; ba_stride := b ; ba_len := zlen a |}.

Definition mask_of (b : Z) : Z := 2 ^ b - 1.
Definition shifts (b : Z) : list Z := map (fun i => b * Z.of_nat i) (seq 0 (Z.to_nat (W / b))).

(* BitArray.unpack L54-65 *)
Definition unpack (p : bitarray) : list Z :=
  let b := ba_stride p in
  ztake (ba_len p) (flat_map (fun reg => map (fun s => Z.land (shr64 reg s) (mask_of b)) (shifts b)) (ba_data p)).

(* BitArray.__getitem__ L67-76 *)
Definition get (p : bitarray) (idx : Z) : res Z :=
  let b := ba_stride p in let k := W / b in
  rmap (fun reg => Z.land (shr64 reg ((idx mod k) * b)) (mask_of b)) (np_item (ba_data p) (idx / k)).
Definition getlist (p : bitarray) (idx : list Z) : res bitarray :=
  rmap (fun vals => pack vals (ba_stride p)) (rsequence (map (get p) idx)).

(* BitArray.sliding_window L78-101 *)
(* res = data[:,None] >> shifts ; res[:-1] |= data[1:,None] << rev_shifts ; res &= mask *)
Definition win_cell (mask reg : Z) (nxt : option Z) (s rs : Z) : Z :=
  Z.land (match nxt with Some n => Z.lor (shr64 reg s) (shl64 n rs) | None => shr64 reg s end) mask.
Definition win_row (b mask reg : Z) (nxt : option Z) : list Z :=
  map2 (win_cell mask reg nxt) (shifts b) (map (fun s => s + b) (rev (shifts b))).
Fixpoint win_go (b mask : Z) (regs : list Z) : list Z :=
  match regs with
  | [] => []
  | r :: rest => win_row b mask r (hd_error rest) ++ win_go b mask rest
  end.
Definition sliding_window (p : bitarray) (w : Z) : list Z :=
  let b := ba_stride p in
  let mask := shr64 (2 ^ W - 1) (W - w * b) in
  ztake (ba_len p - w + 1) (win_go b mask (ba_data p)).

(* spec: digits *)
Definition spec_window (a : list Z) (b w i : Z) : Z :=
  fold_right (fun j acc => acc + Z.shiftl (nth (Z.to_nat (i + j)) a 0) (b * j)) 0 (ap 0 w 1).
Definition spec_windows (a : list Z) (b w : Z) : list Z := map (spec_window a b w) (ap 0 (zlen a - w + 1) 1).

Example p1 : unpack (pack [1;2;3;0;1;3;2] 2) = [1;2;3;0;1;3;2]. Proof. reflexivity. Qed.
Example p2 : sliding_window (pack [1;2;3;0;1] 2) 2 = spec_windows [1;2;3;0;1] 2 2. Proof. reflexivity. Qed.
Example p3 : let a := map (fun i => (i * 7 + 3) mod 16) (ap 0 40 1) in sliding_window (pack a 4) 16 = spec_windows a 4 16.
Proof. vm_compute. reflexivity. Qed.
Example p4 : let a := map (fun i => (i * 7 + 3) mod 16) (ap 0 40 1) in unpack (pack a 4) = a.
Proof. vm_compute. reflexivity. Qed.
