(* C11 — property theorems only: each restates the full statement and is closed by the lemma proved in Proofs/. *)
From Coq Require Import ZArith List Bool.
From NPS Require Import ListAux PySlice NumpySem Scatter BuildIdx XorBroadcast View Index Assign Reduce Scan RaOps Heap Hash HashRun BitArr RLE RLEOps RLE2d DataClass RowsSpec AssignSpec MapSpec Denote HashInit HashSet HashProof HashEq HashAdd HashItems CounterProof HashRunProof.
Import ListNotations.
Open Scope Z_scope.

Theorem C11_Inv_mk :
  forall (V : Type) (dv : V) (keys : list Z) (vals : list V) (m : Z) (t : table V),
       NoDup keys -> mk V keys vals m = Ok t -> Inv V dv t (combine keys vals).
Proof. exact Inv_mk. Qed.
Print Assumptions C11_Inv_mk.

Theorem C11_table_is_dictionary :
  forall (V : Type) (dv : V) (keys : list Z) (vals : list V) (m : Z) (t : table V) (ops : list (op V)),
       NoDup keys -> mk V keys vals m = Ok t -> trun V dv t ops = drun V (combine keys vals) ops.
Proof. exact table_is_dictionary. Qed.
Print Assumptions C11_table_is_dictionary.

Theorem C11_getv_correct :
  forall (V : Type) (dv : V) (t : table V) (d : assoc V) (ks : list Z),
       Inv V dv t d -> getv V dv t ks = spec_getv V d ks.
Proof. exact getv_correct. Qed.
Print Assumptions C11_getv_correct.

Theorem C11_write_one :
  forall (V : Type) (dv : V) (t : table V) (d : assoc V) (vb : list (list V)) (k : Z) (v : V),
       Inv V dv t d ->
       t_vals t = VAligned vb ->
       present V d k = true -> Inv V dv (with_vals V t (set_cell vb (slot V t k) v)) (aset V d k v).
Proof. exact write_one. Qed.
Print Assumptions C11_write_one.

Theorem C11_setv_correct :
  forall (V : Type) (dv : V) (t : table V) (d : assoc V) (ks : list Z) (vs : list V),
       Inv V dv t d ->
       match setv V t ks vs with
       | Ok t' => match spec_setv V d ks vs with
                  | Ok d' => Inv V dv t' d'
                  | Refused => False
                  end
       | Refused => match spec_setv V d ks vs with
                    | Ok _ => False
                    | Refused => True
                    end
       end.
Proof. exact setv_correct. Qed.
Print Assumptions C11_setv_correct.

Theorem C11_tbl_eq_correct :
  forall (V : Type) (dv : V) (veq : V -> V -> bool),
       (forall a b : V, veq a b = true <-> a = b) ->
       forall (t1 t2 : table V) (d1 d2 : assoc V),
       Inv V dv t1 d1 ->
       Inv V dv t2 d2 -> tbl_eq V veq dv t1 t2 = true <-> (forall k : Z, aget V d1 k = aget V d2 k).
Proof. exact tbl_eq_correct. Qed.
Print Assumptions C11_tbl_eq_correct.

Theorem C11_tbl_add_correct :
  forall (V : Type) (dv : V) (vadd : V -> V -> V) (t1 t2 : table V) (d1 d2 : assoc V) (t : table V),
       Inv V dv t1 d1 ->
       Inv V dv t2 d2 ->
       tbl_add V vadd t1 t2 = Ok t -> t_keys t2 = t_keys t1 /\ Inv V dv t (dict_add V dv vadd d1 d2).
Proof. exact tbl_add_correct. Qed.
Print Assumptions C11_tbl_add_correct.

Theorem C11_tbl_add_refusal :
  forall (V : Type) (vadd : V -> V -> V) (t1 t2 : table V),
       (exists t : table V, tbl_add V vadd t1 t2 = Ok t) <-> t_keys t1 = t_keys t2.
Proof. exact tbl_add_refusal. Qed.
Print Assumptions C11_tbl_add_refusal.

Theorem C11_tbl_add_lookup :
  forall (V : Type) (dv : V) (vadd : V -> V -> V) (t1 t2 : table V) (d1 d2 : assoc V) 
         (t : table V) (k : Z) (v1 v2 : V),
       Inv V dv t1 d1 ->
       Inv V dv t2 d2 ->
       tbl_add V vadd t1 t2 = Ok t ->
       aget V d1 k = Some v1 -> aget V d2 k = Some v2 -> getv V dv t [k] = Ok [vadd v1 v2].
Proof. exact tbl_add_lookup. Qed.
Print Assumptions C11_tbl_add_lookup.

Theorem C11_tbl_like_correct :
  forall (V : Type) (dv : V) (t : table V) (d : assoc V) (v : V),
       Inv V dv t d -> Inv V dv (tbl_like V t v) (map (fun kv : Z * V => (fst kv, v)) d).
Proof. exact tbl_like_correct. Qed.
Print Assumptions C11_tbl_like_correct.

Theorem C11_items_correct :
  forall (V : Type) (dv : V) (t : table V) (d : assoc V),
       Inv V dv t d ->
       NoDup (map fst (items V dv t)) /\
       (forall (k : Z) (v : V), In (k, v) (items V dv t) <-> aget V d k = Some v).
Proof. exact items_correct. Qed.
Print Assumptions C11_items_correct.

Theorem C11_hash_run_refines :
  forall (ops : list hop) (t : table Z) (d : assoc Z),
       InvZ t d -> NoDup (map fst d) -> Forall2 out_equiv (hrun t ops) (srun d ops).
Proof. exact hash_run_refines. Qed.
Print Assumptions C11_hash_run_refines.

Theorem C11_hash_model_refines_spec :
  forall (keys vals : list Z) (scalar m : option Z) (ops : list hop),
       NoDup keys ->
       (scalar = None -> length keys = length vals) ->
       match hash_model keys vals scalar m ops with
       | Ok outs => Forall2 out_equiv outs (hash_spec keys vals scalar ops)
       | Refused => match m with
                    | Some x => x
                    | None => default_mod (zlen keys)
                    end <= 0
       end.
Proof. exact hash_model_refines_spec. Qed.
Print Assumptions C11_hash_model_refines_spec.
