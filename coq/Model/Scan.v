From NPS Require Import ListAux PySlice NumpySem Scatter BuildIdx XorBroadcast.
Open Scope Z_scope.

(* C07: RaggedArray.cumsum (L516-542) and _row_accumulate (L544-551), over an abstract abelian group.
   The per-row offsets are spread over the rows by the column broadcast of C04 (xor trick on bit patterns). *)
Section Scan.
Variable G : Type.
Variable gzero : G.
Variable gadd gsub : G -> G -> G.
Variable bxor : G -> G -> G.            (* xor of bit patterns, only used inside the broadcast *)

Fixpoint gcumsum_from (acc : G) (l : list G) : list G :=
  match l with [] => [] | x :: xs => gadd acc x :: gcumsum_from (gadd acc x) xs end.
(* ufunc.accumulate for an arbitrary binary op: r0 = a0, r_k = op r_{k-1} a_k *)
Fixpoint scan_from (op : G -> G -> G) (acc : G) (l : list G) : list G :=
  match l with [] => [] | y :: ys => op acc y :: scan_from op (op acc y) ys end.
Definition accumulate (op : G -> G -> G) (l : list G) : list G :=
  match l with [] => [] | x :: xs => x :: scan_from op x xs end.

Definition znthG (l : list G) (i : Z) : G := nth (Z.to_nat i) l gzero.

(* np.cumsum(unsafe_extend_left(flat)); cm[starts]; RaggedArray(cm[1:], shape) - offsets[:, None] *)
Definition cumsum_model (d : list G) (ls : list Z) : list (list G) :=
  if zsum ls =? 0 then segments d ls else
  let cm := gcumsum_from gzero (gzero :: d) in
  let offsets := map (znthG cm) (excl_prefix ls) in
  let cols := raw_broadcast G gzero bxor offsets ls in
  segments (map2 gsub (tl cm) cols) ls.

(* _row_accumulate with INVERSE_FUNCS = (inv0, inv1), incl. repair F6 (clamped row starts) *)
Definition row_accumulate (op inv0 inv1 : G -> G -> G) (d : list G) (ls : list Z) : list (list G) :=
  if zsum ls =? 0 then segments d ls else
  let st := map (fun s => Z.min s (zsum ls - 1)) (excl_prefix ls) in
  let starts_v := map (znthG d) st in
  let cm := accumulate op d in
  let offsets := map2 inv0 starts_v (map (znthG cm) st) in
  let cols := raw_broadcast G gzero bxor offsets ls in
  segments (map2 inv1 cm cols) ls.

Fixpoint prefix_sums_from (acc : G) (l : list G) : list G := gcumsum_from acc l.
Definition spec_cumsum (rows : list (list G)) : list (list G) := map (gcumsum_from gzero) rows.
Definition spec_accumulate (op : G -> G -> G) (rows : list (list G)) : list (list G) := map (accumulate op) rows.
End Scan.

Example cs1 : cumsum_model Z 0 Z.add Z.sub Z.lxor [1;2;3;4;5;6] [0;3;0;2;1;0] = [[];[1;3;6];[];[4;9];[6];[]]. Proof. reflexivity. Qed.


Example ra1 : row_accumulate Z 0 Z.lxor Z.sub Z.sub Z.add [5;2;1;3;1] [3;0;2;0] = [[5;3;2];[];[3;2];[]]. Proof. reflexivity. Qed.
Example ra2 : row_accumulate Z 0 Z.lxor Z.add Z.sub Z.add [1;2;3] [2;1;0] = [[1;3];[3];[]]. Proof. reflexivity. Qed.
Example ra3 : row_accumulate Z 0 Z.lxor Z.lxor Z.lxor Z.lxor [1;2;3] [0;2;1] = [[];[1;3];[3]]. Proof. reflexivity. Qed.
