"""Shared machinery of the checks (DESIGN.md section 2.5-2.7).

A check of one property does, in this order:
  1. proof obligations: full incremental `make` of coq/, scan for forbidden words, recompile Props/<id>.v pairing every
     property theorem with the answer of its `Print Assumptions` ("Closed under the global context" is required);
  2. ties: (a) translator-generated kernels + tie lemmas (re-generated from $VERIF_REPO's source on every run);
           (b) correspondence: implementation vs extracted model vs extracted spec on generated cases;
  3. verdict per case, evidence file, KNOWN-FINDING / VIOLATION lines, exit code.
"""
import fcntl, hashlib, json, os, pathlib, re, subprocess, sys, time, traceback

ROOT = pathlib.Path(os.environ.get("VERIF_ROOT", pathlib.Path(__file__).resolve().parents[1]))
REPO = os.environ.get("VERIF_REPO", "/repo")
SEED = int(os.environ.get("VERIF_SEED", "0") or 0)
COQ = ROOT / "coq"
ORACLE_DIR = ROOT / "oracle"
BUILD = ROOT / "build"
ALLOWED_AXIOMS = set()          # every property theorem is closed under the global context; nothing is allow-listed
PY = "/venv/bin/python"

KERNEL_TB = "Coq 8.16.1 kernel (coqc, full .vo build; vm_compute only in Example/witness lemmas; no native_compute)"
EXTRACT_TB = ("extraction to OCaml 4.13.1: Require Extraction ExtrOcamlBasic only (its Extract Inductive for bool option unit list prod "
              "sumbool sumor; no Extract Constant; Z N positive nat stay inductive) + oracle/driver.ml (parsing/printing, decimal bignums)")
AXIOMS_TB = "axioms: none - every Print Assumptions under a property theorem answers 'Closed under the global context' (parsed on every run)"


def sh(cmd, cwd=None, timeout=900, inp=None, env=None):
    try:
        p = subprocess.run(cmd, cwd=cwd, shell=isinstance(cmd, str), input=inp, capture_output=True, text=True, timeout=timeout, env=env)
        return p.returncode, p.stdout + p.stderr
    except subprocess.TimeoutExpired as e:
        return 124, "TIMEOUT after %ss: %s" % (timeout, cmd)


class lock:
    """one build at a time (checks may be started concurrently)"""
    def __init__(self, name):
        BUILD.mkdir(exist_ok=True); self.f = open(BUILD / (name + ".lock"), "w")
    def __enter__(self): fcntl.flock(self.f, fcntl.LOCK_EX); return self
    def __exit__(self, *a): fcntl.flock(self.f, fcntl.LOCK_UN); self.f.close()


# ---------------------------------------------------------------- proof obligations
def build_coq():
    """full .vo build of the development (incremental; never -vos/-vok); returns (ok, log)"""
    with lock("coq"):
        if not (COQ / "Makefile").exists():
            sh("coq_makefile -f _CoqProject -o Makefile", cwd=COQ)
        rc, out = sh("timeout 2400 make -j16", cwd=COQ, timeout=2500)
    return rc == 0, out


FORBIDDEN = re.compile(r"\b(Admitted|admit|Axiom|Axioms|Parameter|Parameters|Conjecture|Conjectures|Admit Obligations|bypass_check|give_up)\b"
                       r"|Unset\s+Guard|Unset\s+Positivity|Unset\s+Universe|type-in-type|impredicative-set|Local Unset Guard")


def strip_comments(text):
    out = []; depth = 0; i = 0
    while i < len(text):
        if text.startswith("(*", i): depth += 1; i += 2; continue
        if text.startswith("*)", i) and depth: depth -= 1; i += 2; continue
        if depth == 0: out.append(text[i])
        elif text[i] == "\n": out.append("\n")
        i += 1
    return "".join(out)


def scan_forbidden():
    """no Admitted / admit / Axiom / Parameter / Conjecture / guard switches anywhere in the development;
    Variable/Hypothesis only inside a Section"""
    hits = []
    files = sorted(COQ.rglob("*.v")) + [COQ / "_CoqProject"]
    for f in files:
        text = strip_comments(f.read_text())
        depth = 0
        for n, line in enumerate(text.splitlines(), 1):
            if FORBIDDEN.search(line):
                hits.append(f"{f.relative_to(ROOT)}:{n}: {line.strip()[:100]}")
            if re.match(r"\s*(Section|Module)\s+\w+", line) and not re.search(r":=", line): depth += 1
            if re.match(r"\s*End\s+\w+\s*\.", line): depth = max(0, depth - 1)
            if depth == 0 and re.match(r"\s*(Variable|Variables|Hypothesis|Hypotheses|Context)\b", line):
                hits.append(f"{f.relative_to(ROOT)}:{n}: {line.strip()[:100]} (outside a section)")
    return hits


def check_props(prop):
    """recompile Props/<prop>.v, pairing each theorem with the answer of its Print Assumptions"""
    src = COQ / "Props" / f"{prop}.v"
    text = src.read_text()
    names = re.findall(r"^Print Assumptions (\w+)\.", text, re.M)
    thms = re.findall(r"^(?:Theorem|Lemma)\s+(\w+)", text, re.M)
    rc, out = sh(["timeout", "600", "coqc", "-Q", ".", "NPS", f"Props/{prop}.v"], cwd=COQ, timeout=620)
    obligations = []
    if rc != 0:
        return [{"theorem": n, "ok": False, "assumptions": "does not compile: " + out[-300:]} for n in (names or [f"Props/{prop}.v"])], out
    blocks = re.split(r"(?=Closed under the global context|Axioms:)", out)
    blocks = [b.strip() for b in blocks if b.strip().startswith(("Closed", "Axioms:"))]
    for i, n in enumerate(names):
        b = blocks[i] if i < len(blocks) else "missing"
        if b.startswith("Closed"):
            ok, ax = True, "Closed under the global context"
        else:
            axs = re.findall(r"^(\S+)\s*:", b, re.M)
            ok, ax = all(a in ALLOWED_AXIOMS for a in axs) and bool(axs), "; ".join(axs) or b[:200]
        obligations.append({"theorem": n, "ok": ok, "assumptions": ax})
    for t in thms:
        if t not in names and not t.startswith("ex_"):
            obligations.append({"theorem": t, "ok": False, "assumptions": "no Print Assumptions beneath the theorem"})
    return obligations, out


def coqchk(prop):
    """independent re-check of Props/<prop>.vo and everything it depends on (thorough tier)"""
    rc, out = sh(["timeout", "1500", "coqchk", "-silent", "-o", "-Q", ".", "NPS", f"NPS.Props.{prop}"], cwd=COQ, timeout=1600)
    ax = re.search(r"\* Axioms:\s*(.*?)\n\s*\n", out + "\n\n", re.S)
    axioms = ax.group(1).strip() if ax else out[-300:]
    return {"theorem": f"coqchk -o NPS.Props.{prop}", "ok": rc == 0 and "<none>" in axioms, "assumptions": "coqchk axioms: " + axioms[:200]}


# ---------------------------------------------------------------- translator tie (DESIGN 2.3)
def translator_tie(groups):
    """re-translate the arithmetic kernels from $VERIF_REPO's current source, recompile the generated definitions and the tie lemmas
    `generated kernel = hand model`; one obligation per lemma of Tie/Tie_<group>.v"""
    res = []
    with lock("gen"):
        rc, out = sh([PY, str(ROOT / "tools" / "translate.py"), REPO, str(COQ / "Gen")], timeout=120)
        failed = dict(l[7:].split(": ", 1) for l in out.splitlines() if l.startswith("FAILED "))
        if rc != 0:
            return [{"tie": "translator runs on the current source (fail-closed)", "ok": False, "detail": out[-400:]}]
        for g in groups:
            lemmas = re.findall(r"^Lemma (\w+)", (COQ / "Tie" / f"Tie_{g}.v").read_text(), re.M)
            rc1, o1 = sh(["timeout", "300", "coqc", "-Q", ".", "NPS", f"Gen/K_{g}.v"], cwd=COQ, timeout=320)
            rc2, o2 = (1, "generated kernels do not compile") if rc1 else sh(["timeout", "600", "coqc", "-Q", ".", "NPS", f"Tie/Tie_{g}.v"], cwd=COQ, timeout=620)
            bad = [k for k in failed]
            detail = ("; ".join(f"{k}: {v}" for k, v in failed.items()) + " | " if failed else "") + (o1 + o2)[-500:]
            for lm in lemmas:
                res.append({"tie": f"Tie/Tie_{g}.v {lm}: kernel re-translated from the current source = hand model (coqc, decision procedure)",
                            "ok": rc1 == 0 and rc2 == 0, "detail": "" if rc1 == 0 and rc2 == 0 else detail})
    return res


# ---------------------------------------------------------------- oracle
def build_oracle():
    with lock("oracle"):
        exe = ORACLE_DIR / "oracle"
        srcs = [COQ / "oracle_core.ml", COQ / "oracle_core.mli", ORACLE_DIR / "driver.ml"]
        if not all(s.exists() for s in srcs):
            return False, "extraction output missing (coq/oracle_core.ml)"
        if exe.exists() and all(exe.stat().st_mtime >= s.stat().st_mtime for s in srcs):
            return True, ""
        sh(f"cp {COQ}/oracle_core.ml {COQ}/oracle_core.mli {ORACLE_DIR}/")
        rc, out = sh("ocamlfind ocamlopt -O3 -package str oracle_core.mli oracle_core.ml driver.ml -o oracle 2>&1 || "
                     "ocamlfind ocamlopt -package str oracle_core.mli oracle_core.ml driver.ml -o oracle", cwd=ORACLE_DIR, timeout=600)
        return (ORACLE_DIR / "oracle").exists() and rc == 0, out


def oracle(lines, chunk=20000):
    """run the extracted model+spec on protocol lines; sharded over processes"""
    if not lines: return []
    parts = [lines[i:i + chunk] for i in range(0, len(lines), chunk)]
    procs = []
    out = []
    for i in range(0, len(parts), 16):
        batch = [subprocess.Popen([str(ORACLE_DIR / "oracle")], stdin=subprocess.PIPE, stdout=subprocess.PIPE, text=True) for _ in parts[i:i + 16]]
        import threading
        res = [None] * len(batch)
        def feed(j, p, data):
            res[j] = p.communicate(data)[0]
        ths = [threading.Thread(target=feed, args=(j, p, "\n".join(parts[i + j]) + "\n")) for j, p in enumerate(batch)]
        for t in ths: t.start()
        for t in ths: t.join()
        for j, r in enumerate(res):
            ls = (r or "").splitlines()
            want = len(parts[i + j])
            ls += ["ERR oracle produced no answer"] * (want - len(ls))
            out += ls[:want]
    return out


# ---------------------------------------------------------------- protocol values
def show(v):
    if v is None: return "N"
    if isinstance(v, bool): return "1" if v else "0"
    if isinstance(v, (list, tuple)): return "[" + " ".join(show(x) for x in v) + "]"
    return str(int(v))


def parse(s):
    toks = s.replace("[", " [ ").replace("]", " ] ").split(); pos = 0
    def p():
        nonlocal pos
        t = toks[pos]; pos += 1
        if t == "[":
            r = []
            while toks[pos] != "]": r.append(p())
            pos += 1; return r
        return None if t == "N" else int(t)
    return p()


def parse2(o):
    """an oracle answer line `[model spec]` -> (model, spec); an ERR line marks both"""
    if o.startswith("ERR"):
        e = "oracle-error: " + o[:100]; return e, e
    m, s = parse(o)
    return m, s


def guarded(f):
    """every call into the implementation goes through here: any exception is a refusal (None)"""
    try:
        return f()
    except Exception:
        return None


# ---------------------------------------------------------------- known findings
def load_known(prop):
    f = ROOT / "known_findings.json"
    if not f.exists(): return []
    return [e for e in json.loads(f.read_text()) if e.get("property") == prop and e.get("status") == "known"]


# ---------------------------------------------------------------- verdicts and evidence
class Run:
    def __init__(self, prop, tier, only=None):
        self.prop, self.tier, self.t0 = prop, tier, time.time()
        self.evals = 0; self.distinct = set(); self.samples = []; self.dist = {}
        self.violations = []; self.known_hits = {}; self.internal = []; self.notes = {}; self.ties = []
        self.known = load_known(prop)
        self.only = only            # replay: only these case ids are judged

    def record(self, case, impl, model, spec, nontrivial=True, kind="case", cls=None, py=None):
        """one correspondence case.  impl/model/spec are canonical python values (None = refused).
        cls: name of the known-finding class this case falls in (or None); py: python text reproducing the case"""
        if self.only is not None and case not in self.only: return
        self.evals += 1
        self.dist[kind] = self.dist.get(kind, 0) + 1
        if nontrivial: self.distinct.add(hashlib.md5(case.encode()).digest()[:8])
        if len(self.samples) < 6 and nontrivial and self.evals % 97 == 1:
            self.samples.append({"case": case[:400], "python": py, "implementation": impl, "spec": spec})
        if impl == spec:
            return
        if cls and impl == model and any(k["class"] == cls for k in self.known):
            if cls not in self.known_hits or len(py or case) < len(self.known_hits[cls][1] or self.known_hits[cls][0]): self.known_hits[cls] = (case, py)
            return
        if model != spec and not cls:
            self.internal.append({"case": case, "model": model, "spec": spec})
        self.violations.append({"case": case, "python": py, "implementation": impl, "model": model, "spec": spec,
                                "reason": "implementation differs from the specification"})

    def violation(self, case, reason, **kw):
        if self.only is not None and case not in self.only: return
        self.violations.append(dict(case=case, reason=reason, **kw))

    def finish(self, obligations, ties, trusted, assumptions, level="proof", rule="", extra=None):
        broken = [o for o in obligations if not o["ok"]] + [t for t in ties if not t["ok"]]
        rep = ROOT / "replays"; rep.mkdir(exist_ok=True)
        lines = []
        for cls, (case, py) in self.known_hits.items():
            k = next(k for k in self.known if k["class"] == cls)
            lines.append(f"KNOWN-FINDING: property={self.prop} {k['what']} (e.g. {(py or case)[:260]})")
        viol = sorted(self.violations, key=lambda v: len(v["case"]))      # report the smallest failing case first
        if self.internal and not viol:
            viol.append({"case": "(internal)", "reason": "model and specification disagree inside the proved guard: internal error of the machinery",
                         "cases": self.internal[:5]})
        nofail = False
        if broken and not viol:
            nofail = True
            viol.append({"case": "(proof obligation or tie)", "reason": "no-failing-input-found",
                         "broken": broken, "searched": f"{self.evals} correspondence cases agreed with the specification"})
        if os.environ.get("VERIF_DUMP"):
            (BUILD / f"viol_{self.prop}.json").write_text(json.dumps(viol, indent=0, default=str))
        rc = 0
        if viol:
            h = hashlib.md5(json.dumps(viol[0], default=str, sort_keys=True).encode()).hexdigest()[:10]
            path = rep / f"{self.prop}-{self.tier}-{SEED}-{h}.json"
            path.write_text(json.dumps({"property": self.prop, "seed": SEED, "tier": self.tier, "repo": REPO,
                                        "violation": viol[0], "more_failing_cases": len(viol) - 1,
                                        "other_cases": [v["case"] for v in viol[1:6]],
                                        "broken_obligations": broken,
                                        "replay": f"./check {self.prop} --replay {path.relative_to(ROOT)}"}, indent=1, default=str))
            lines.append(f"VIOLATION property={self.prop} replay={path}" + (" no-failing-input-found" if nofail else ""))
            rc = 1
        cov = {"obligations": len(obligations) + len(ties),
               "discharged": sum(bool(o["ok"]) for o in obligations) + sum(bool(t["ok"]) for t in ties),
               "checker_cmd": f"cd coq && make -j16 && coqc -Q . NPS Props/{self.prop}.v   (Print Assumptions beneath every theorem is parsed)",
               "trusted_base": trusted,
               "theorems": obligations, "ties": ties,
               "evaluations": self.evals, "distinct_nontrivial": len(self.distinct),
               "rule": rule, "samples": self.samples or [{"note": "no sample retained"}],
               "input_distribution": self.dist,
               "known_finding_cases": {k: (v[1] or v[0])[:300] for k, v in self.known_hits.items()}}
        cov.update(self.notes)
        if extra: cov.update(extra)
        ev = {"property_id": self.prop, "tier": self.tier if self.tier in ("quick", "thorough") else "quick", "seed": SEED, "level": level,
              "coverage": cov, "assumptions": assumptions, "wall_s": round(time.time() - self.t0, 2), "violations": len(viol)}
        # evidence/ describes runs against /repo itself; runs against another tree (self-tests with VERIF_REPO) write elsewhere
        evdir = ROOT / "evidence" if os.path.realpath(REPO) == "/repo" else BUILD / "evidence-other-tree"
        evdir.mkdir(parents=True, exist_ok=True)
        if self.only is None:
            tmp = evdir / f".{self.prop}.json.tmp"
            tmp.write_text(json.dumps(ev, indent=1, default=str))
            os.replace(tmp, evdir / f"{self.prop}.json")
        for l in lines: print(l)
        sys.stdout.flush()
        return rc
