From Coq Require Import ZifyBool.
From NPS Require Import ListAux PySlice NumpySem BuildIdx Bits BitArr BitProof.
Open Scope Z_scope.

(* C13: packed[list of positions] is a packed array of exactly those elements *)
Theorem getlist_correct (a : list Z) (b : Z) : 1 <= b -> b * (W / b) = W -> Forall (digit_ok b) a ->
  forall idx, Forall (fun i => 0 <= i < zlen a) idx ->
  rmap unpack (getlist (pack a b) idx) = Ok (map (fun i => nth (Z.to_nat i) a 0) idx).
Proof.
  intros Hb Hbk Hok idx Hidx. unfold getlist.
  assert (E : rsequence (map (get (pack a b)) idx) = Ok (map (fun i => nth (Z.to_nat i) a 0) idx)).
  { induction Hidx as [|i idx Hi _ IH]; [reflexivity|]. cbn [map rsequence]. rewrite (get_correct a b Hb Hbk Hok i Hi), IH. reflexivity. }
  rewrite E. cbn [rmap]. f_equal.
  replace (ba_stride (pack a b)) with b by reflexivity.
  apply unpack_pack; [assumption|assumption|].
  apply Forall_forall. intros x Hx. apply in_map_iff in Hx as (i & <- & Hi).
  rewrite Forall_forall in Hidx, Hok. specialize (Hidx i Hi). apply Hok. apply nth_In. unfold zlen in Hidx. lia.
Qed.
