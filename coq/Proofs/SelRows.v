From Coq Require Import ZifyBool.
From NPS Require Import ListAux PySlice NumpySem.
Open Scope Z_scope.

(* first-axis selectors commute with map (they only move elements) and only return existing elements *)
Section N.
Context {X Y : Type} (f : X -> Y).

Lemma zlen_map (l : list X) : zlen (map f l) = zlen l.
Proof. unfold zlen. now rewrite map_length. Qed.

Lemma py_index_map (l : list X) i : py_index (map f l) i = option_map f (py_index l i).
Proof.
  unfold py_index. rewrite zlen_map. destruct (py_norm_index (zlen l) i) as [j|]; [|reflexivity].
  now rewrite nth_error_map.
Qed.
Lemma np_item_map (l : list X) i : np_item (map f l) i = rmap f (np_item l i).
Proof. unfold np_item. rewrite py_index_map. destruct (py_index l i); reflexivity. Qed.
Lemma rsequence_map (l : list (res X)) : rsequence (map (rmap f) l) = rmap (map f) (rsequence l).
Proof.
  induction l as [|r l IH]; [reflexivity|]. cbn [map rsequence]. rewrite IH.
  destruct r; cbn; [destruct (rsequence l); reflexivity|reflexivity].
Qed.
Lemma np_take_map (l : list X) idx : np_take (map f l) idx = rmap (map f) (np_take l idx).
Proof.
  unfold np_take. rewrite <- rsequence_map, map_map. f_equal. apply map_ext. intros i. apply np_item_map.
Qed.
Lemma mask_filter_map (l : list X) m : mask_filter (map f l) m = map f (mask_filter l m).
Proof. revert m; induction l as [|x l IH]; intros [|b m]; cbn; auto. destruct b; cbn; now rewrite IH. Qed.
Lemma np_mask_map (l : list X) m : np_mask (map f l) m = rmap (map f) (np_mask l m).
Proof. unfold np_mask. rewrite map_length. destruct (Nat.eqb (length l) (length m)); cbn; [now rewrite mask_filter_map|reflexivity]. Qed.
Lemma slice_list_map (l : list X) s : slice_list (map f l) s = map f (slice_list l s).
Proof.
  unfold slice_list. rewrite zlen_map. induction (py_positions (zlen l) s) as [|p ps IH]; [reflexivity|].
  cbn [flat_map]. rewrite map_app, IH. f_equal. rewrite nth_error_map. destruct (nth_error l (Z.to_nat p)); reflexivity.
Qed.
Lemma np_slice_map (l : list X) s : np_slice (map f l) s = rmap (map f) (np_slice l s).
Proof. unfold np_slice. destruct (valid_slice s); cbn; [now rewrite slice_list_map|reflexivity]. Qed.

Theorem sel_rows_map (s : rowsel) (l : list X) : sel_rows s (map f l) = rmap (map f) (sel_rows s l).
Proof. destruct s; cbn [sel_rows]; [apply np_slice_map|apply np_take_map|apply np_mask_map|reflexivity]. Qed.
End N.

Section I.
Context {X : Type}.
Lemma np_item_In (l : list X) i x : np_item l i = Ok x -> In x l.
Proof.
  unfold np_item, py_index. destruct (py_norm_index (zlen l) i); [|discriminate].
  destruct (nth_error l (Z.to_nat z)) eqn:E; [|discriminate]. intros H. injection H as <-. eapply nth_error_In; eauto.
Qed.
Lemma rsequence_Ok (l : list (res X)) xs : rsequence l = Ok xs -> l = map Ok xs.
Proof.
  revert xs; induction l as [|r l IH]; intros xs H; cbn in H.
  - injection H as <-. reflexivity.
  - destruct r as [x|]; [|discriminate]. destruct (rsequence l) as [ys|]; [|discriminate]. injection H as <-. cbn. f_equal. now apply IH.
Qed.
Lemma np_take_In (l : list X) idx xs : np_take l idx = Ok xs -> forall x, In x xs -> In x l.
Proof.
  unfold np_take. intros H x Hx. apply rsequence_Ok in H.
  assert (Hin : In (Ok x) (map (np_item l) idx)) by (rewrite H; now apply in_map).
  apply in_map_iff in Hin. destruct Hin as (i & Hi & _). now apply np_item_In in Hi.
Qed.
Lemma mask_filter_In (l : list X) m x : In x (mask_filter l m) -> In x l.
Proof. revert m; induction l as [|y l IH]; intros [|b m] H; cbn in *; try contradiction. destruct b; cbn in H; [destruct H; auto|]; right; eapply IH; eauto. Qed.
Lemma slice_list_In (l : list X) s x : In x (slice_list l s) -> In x l.
Proof.
  unfold slice_list. intros H. apply in_flat_map in H. destruct H as (p & _ & Hp).
  destruct (nth_error l (Z.to_nat p)) eqn:E; [|contradiction]. destruct Hp as [<-|[]]. eapply nth_error_In; eauto.
Qed.
Theorem sel_rows_In (s : rowsel) (l l' : list X) : sel_rows s l = Ok l' -> forall x, In x l' -> In x l.
Proof.
  destruct s; cbn [sel_rows]; intros H x Hx.
  - unfold np_slice in H. destruct (valid_slice s); [|discriminate]. injection H as <-. eapply slice_list_In; eauto.
  - eapply np_take_In; eauto.
  - unfold np_mask in H. destruct (Nat.eqb _ _); [|discriminate]. injection H as <-. eapply mask_filter_In; eauto.
  - now injection H as <-.
Qed.
End I.
