From Coq Require Import ZifyBool.
From NPS Require Import ListAux PySlice NumpySem Scatter BuildIdx XorProof Denote RLE RLEOps RaOps SetItem ColSum SubsetProof SortProof.
Open Scope Z_scope.

(* C07 unique (arrayfunctions.py L190-231), values part: the change mask with the row starts forced, applied to the
   row-wise sorted data, keeps exactly the first element of every run of equal values of every row *)

Definition neq01 (x y : Z) : Z := if x =? y then 0 else 1.
Fixpoint gm (prev : option Z) (l : list Z) : list Z :=
  match l with [] => [] | x :: t => (match prev with None => 1 | Some p => neq01 p x end) :: gm (Some x) t end.
Definition rowmarks (r : list Z) : list Z := match r with [] => [] | x :: t => 1 :: gm (Some x) t end.
Definition carry_last (prev : option Z) (a : list Z) : option Z := match a with [] => prev | _ => Some (last a 0) end.

Lemma m0_tail : forall t x, map2 neq01 (removelast (x :: t)) t = gm (Some x) t.
Proof.
  induction t as [|y t IH]; intros x; [reflexivity|].
  change (removelast (x :: y :: t)) with (x :: removelast (y :: t)). cbn [map2 gm]. now rewrite IH.
Qed.
Lemma m0_char sd : sd <> [] -> 1 :: map2 neq01 (removelast sd) (tl sd) = gm None sd.
Proof. destruct sd as [|x t]; [congruence|]. intros _. cbn [tl gm]. now rewrite m0_tail. Qed.

Lemma gm_app : forall a prev b, gm prev (a ++ b) = gm prev a ++ gm (carry_last prev a) b.
Proof.
  induction a as [|x a IH]; intros prev b; [reflexivity|]. cbn [app gm]. rewrite IH. f_equal. f_equal.
  destruct a as [|y a]; [reflexivity|]. cbn [carry_last]. f_equal.
Qed.
Lemma gm_length : forall l prev, length (gm prev l) = length l.
Proof. induction l as [|x l IH]; intros prev; [reflexivity|]. cbn [gm length]. now rewrite IH. Qed.

Lemma zset0_cons {X} (x v : X) l : zset (x :: l) 0 v = v :: l. Proof. reflexivity. Qed.
Lemma zset0_twice {X} (l : list X) v : zset (zset l 0 v) 0 v = zset l 0 v. Proof. destruct l; reflexivity. Qed.

Lemma force_starts : forall S prev,
  let ps := excl_from 0 (map zlen S) in
  scatter_set (gm prev (concat S) ++ [1]) ps (map (fun _ => 1) ps) = concat (map rowmarks S) ++ [1].
Proof.
  induction S as [|r S IH]; intros prev; cbn zeta in *; [reflexivity|].
  cbn [map excl_from concat scatter_set]. rewrite Z.add_0_l.
  destruct r as [|x t].
  - (* an empty row: its start is the next row's start (or the end), which is forced anyway *)
    cbn [app rowmarks]. change (zlen (@nil Z)) with 0.
    destruct S as [|r' S'].
    + cbn. destruct prev; reflexivity.
    + specialize (IH prev). cbn [map excl_from scatter_set] in IH. cbn [map excl_from scatter_set]. rewrite zset0_twice. exact IH.
  - cbn [app gm rowmarks concat map]. rewrite zset0_cons.
    rewrite gm_app. rewrite <- app_assoc.
    change (1 :: gm (Some x) t ++ gm (carry_last (Some x) t) (concat S) ++ [1])
      with ((1 :: gm (Some x) t) ++ (gm (carry_last (Some x) t) (concat S) ++ [1])).
    rewrite (excl_from_shift (zlen (x :: t))), map_map.
    assert (Hl : zlen (x :: t) = zlen (1 :: gm (Some x) t)) by (unfold zlen; cbn [length]; now rewrite gm_length).
    rewrite Hl. rewrite <- (map_map (Z.add (zlen (1 :: gm (Some x) t))) (fun _ => 1)) || idtac.
    replace (map (fun _ : Z => 1) (map (Z.add (zlen (1 :: gm (Some x) t))) (excl_from 0 (map zlen S)))) with (map (fun _ : Z => 1) (excl_from 0 (map zlen S))) by (now rewrite map_map).
    rewrite scatter_app_shift by (eapply Forall_impl; [|apply (excl_from_ge (map zlen S) 0 (all_nonneg_zlen S))]; cbn; intros; lia).
    rewrite (IH (carry_last (Some x) t)). now rewrite <- app_assoc.
Qed.

(* the kept elements of one row *)
Fixpoint kf (prev : Z) (l : list Z) : list Z :=
  match l with [] => [] | y :: t => if prev =? y then kf y t else y :: kf y t end.
Lemma dedup_values : forall r x, map fst (dedup_sorted (x :: r)) = x :: kf x r.
Proof.
  induction r as [|y t IH]; intros x; [reflexivity|]. specialize (IH y).
  change (dedup_sorted (x :: y :: t)) with (match dedup_sorted (y :: t) with (y', c) :: T => if x =? y' then (y', c + 1) :: T else (x, 1) :: (y', c) :: T | [] => [(x, 1)] end).
  destruct (dedup_sorted (y :: t)) as [|[y' c] T]; [discriminate|]. cbn [map fst] in IH. injection IH as Ey ET. subst y'.
  cbn [kf]. destruct (x =? y) eqn:E; cbn [map fst]; rewrite ET; [f_equal; lia|reflexivity].
Qed.
Definition nzb (b : Z) : bool := negb (b =? 0).
Lemma keep_tail : forall t p, mask_filter t (map nzb (gm (Some p) t)) = kf p t.
Proof.
  induction t as [|y t IH]; intros p; [reflexivity|]. cbn [gm map mask_filter kf]. unfold neq01, nzb at 1.
  destruct (p =? y); cbn [Z.eqb negb]; now rewrite IH.
Qed.
Lemma keep_row r : mask_filter r (map nzb (rowmarks r)) = map fst (dedup_sorted r).
Proof. destruct r as [|x t]; [reflexivity|]. rewrite dedup_values. cbn [rowmarks map mask_filter nzb]. cbn. f_equal. apply keep_tail. Qed.

Theorem unique_mask_values (S : list (list Z)) (prev : option Z) :
  let m := scatter_set (gm prev (concat S) ++ [1]) (excl_prefix (map zlen S)) (map (fun _ => 1) (excl_prefix (map zlen S))) in
  mask_filter (concat S) (map nzb (removelast m)) = concat (map (fun r => map fst (dedup_sorted r)) S).
Proof.
  cbn zeta. unfold excl_prefix. rewrite (force_starts S prev). rewrite removelast_last, concat_map.
  rewrite mask_filter_concat.
  - f_equal. induction S as [|r S IH]; [reflexivity|]. cbn [map map2]. now rewrite keep_row, IH.
  - unfold same_shape. rewrite !map_map. apply map_ext. intros r. rewrite map_length. destruct r; [reflexivity|]. cbn [rowmarks length]. now rewrite gm_length.
Qed.
Print Assumptions unique_mask_values.

(* ---- multiplicities: distances between consecutive marks ---- *)
Fixpoint runs (prev n : Z) (l : list Z) : list Z :=
  match l with [] => [n] | y :: t => if prev =? y then runs y (n + 1) t else n :: runs y 1 t end.
Definition bump (k : Z) (l : list Z) : list Z := match l with [] => [] | c :: T => (k + c) :: T end.

Lemma dedup_counts : forall r x n, runs x n r = bump (n - 1) (map snd (dedup_sorted (x :: r))).
Proof.
  induction r as [|y t IH]; intros x n; [cbn; f_equal; lia|].
  change (dedup_sorted (x :: y :: t)) with (match dedup_sorted (y :: t) with (y', c) :: T => if x =? y' then (y', c + 1) :: T else (x, 1) :: (y', c) :: T | [] => [(x, 1)] end).
  pose proof (dedup_values t y) as Hv. cbn [runs].
  destruct (dedup_sorted (y :: t)) as [|[y' c] T] eqn:ED; [discriminate|]. cbn [map fst] in Hv. injection Hv as Ey _. subst y'.
  destruct (x =? y) eqn:E.
  - assert (x = y) by lia. subst y. rewrite IH, ED. cbn [map snd bump]. f_equal. lia.
  - rewrite IH, ED. cbn [map snd bump]. repeat (f_equal; try lia).
Qed.

Lemma diff1_cc a b r : diff1 (a :: b :: r) = (b - a) :: diff1 (b :: r). Proof. reflexivity. Qed.

Lemma run_distances : forall t p n off REST tail, REST = 1 :: tail ->
  diff1 ((off - n) :: fnz_from off (map nzb (gm (Some p) t ++ REST)))
  = runs p n t ++ diff1 (fnz_from (off + zlen t) (map nzb REST)).
Proof.
  induction t as [|y t IH]; intros p n off REST tail HR.
  - cbn [gm app runs]. change (zlen (@nil Z)) with 0. rewrite Z.add_0_r. subst REST. cbn [map]. change (nzb 1) with true. cbn [fnz_from].
    rewrite diff1_cc. cbn [app]. f_equal. lia.
  - cbn [gm app map runs]. unfold neq01. replace (zlen (y :: t)) with (1 + zlen t) by (unfold zlen; cbn [length]; lia).
    destruct (p =? y) eqn:E; [change (nzb 0) with false|change (nzb 1) with true]; cbn [fnz_from].
    + replace (off - n) with (off + 1 - (n + 1)) by lia. rewrite (IH y (n + 1) (off + 1) REST tail HR). do 3 f_equal. lia.
    + rewrite diff1_cc. cbn [app]. f_equal; [lia|]. replace off with (off + 1 - 1) at 1 by lia.
      rewrite (IH y 1 (off + 1) REST tail HR). do 3 f_equal. lia.
Qed.

Lemma marks_head : forall S, exists tail, concat (map rowmarks S) ++ [1] = 1 :: tail.
Proof.
  induction S as [|r S [tl_ IH]]; [now exists []|]. destruct r as [|x t]; [exists tl_; exact IH|].
  cbn [map concat rowmarks app]. eexists. reflexivity.
Qed.

Theorem unique_mask_counts : forall (S : list (list Z)) off,
  diff1 (fnz_from off (map nzb (concat (map rowmarks S) ++ [1]))) = concat (map (fun r => map snd (dedup_sorted r)) S).
Proof.
  induction S as [|r S IH]; intros off; [reflexivity|]. destruct r as [|x t]; [cbn [map concat rowmarks app]; apply IH|].
  cbn [map concat rowmarks]. rewrite <- app_assoc. cbn [app map]. change (nzb 1) with true. cbn [fnz_from].
  destruct (marks_head S) as [tail HT].
  replace off with (off + 1 - 1) at 1 by lia.
  rewrite (run_distances t x 1 (off + 1) (concat (map rowmarks S) ++ [1]) tail HT).
  rewrite IH. f_equal. rewrite dedup_counts. replace (1 - 1) with 0 by lia.
  destruct (map snd (dedup_sorted (x :: t))) as [|c T]; [reflexivity|]. cbn [bump]. f_equal.
Qed.

(* the implementation's unique: the values and the multiplicities it returns are, row after row, the sorted distinct
   values of the row and how often each occurs (the reported row lengths are left existential here) *)
Theorem unique_values_counts_partial (R : list (list Z)) :
  exists nl, ra_unique (fr_of_rows R) = Ok ((concat (fst (spec_unique R)), nl), (concat (snd (spec_unique R)), nl)).
Proof.
  unfold ra_unique. unfold fr_of_rows at 1.
  assert (Hspec : concat (fst (spec_unique R)) = concat (map (fun s => map fst (dedup_sorted s)) (spec_sort R))).
  { unfold spec_unique, spec_sort. cbn [fst]. now rewrite !map_map. }
  assert (Hspec2 : concat (snd (spec_unique R)) = concat (map (fun s => map snd (dedup_sorted s)) (spec_sort R))).
  { unfold spec_unique, spec_sort. cbn [snd]. now rewrite !map_map. }
  destruct (zsum (map zlen R) =? 0) eqn:Ez.
  - exists (map zlen R).
    assert (Hd : concat R = []).
    { apply Z.eqb_eq in Ez. rewrite zsum_map_zlen in Ez. destruct (concat R); [reflexivity|unfold zlen in Ez; cbn in Ez; lia]. }
    assert (Hall : Forall (fun r => r = []) R).
    { clear - Hd. induction R as [|r R IH]; [constructor|]. cbn [concat] in Hd. apply app_eq_nil in Hd as [H1 H2]. constructor; auto. }
    rewrite Hspec, Hspec2, Hd.
    assert (E1 : concat (map (fun s => map fst (dedup_sorted s)) (spec_sort R)) = []) by (clear - Hall; induction Hall as [|r R Hr _ IH]; [reflexivity|]; subst r; cbn; exact IH).
    assert (E2 : concat (map (fun s => map snd (dedup_sorted s)) (spec_sort R)) = []) by (clear - Hall; induction Hall as [|r R Hr _ IH]; [reflexivity|]; subst r; cbn; exact IH).
    now rewrite E1, E2.
  - change (concat R, map zlen R) with (fr_of_rows R). rewrite sort_correct. cbn [rbind]. unfold fr_of_rows. cbn [fst snd].
    set (S := spec_sort R).
    assert (Hl : map zlen S = map zlen R).
    { unfold S, spec_sort. rewrite map_map. apply map_ext. intros r. unfold zlen. now rewrite map_length, sort_length, map_length. }
    assert (Hne : concat S <> []).
    { intros E. apply Z.eqb_neq in Ez. apply Ez. rewrite <- Hl, zsum_map_zlen, E. reflexivity. }
    change (fun x y : Z => if x =? y then 0 else 1) with neq01. rewrite (m0_char (concat S) Hne).
    change (fun b : Z => negb (b =? 0)) with nzb. rewrite <- Hl.
    pose proof (force_starts S None) as Hm. cbn zeta in Hm. unfold excl_prefix. rewrite Hm.
    eexists. f_equal. f_equal.
    + f_equal. rewrite Hspec. fold S. rewrite removelast_last, concat_map. rewrite mask_filter_concat.
      * f_equal. clear. induction S as [|r S IH]; [reflexivity|]. cbn [map map2]. now rewrite keep_row, IH.
      * unfold same_shape. rewrite !map_map. apply map_ext. intros r. rewrite map_length. destruct r; [reflexivity|]. cbn [rowmarks length]. now rewrite gm_length.
    + f_equal. rewrite Hspec2. fold S. unfold flatnonzero. apply unique_mask_counts.
Qed.
Print Assumptions unique_values_counts_partial.
