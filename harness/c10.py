"""C10 — looking at an array never changes anything: pairs of histories with / without one inserted read-only operation.

Every history is run on the implementation and on the heap-with-lazy-views machine of Model/Heap.v (extracted); the oracle also says
whether the history is `safe` (no assignment writes into a buffer another array still names), the guard of theorem C10_partial.
Verdict for a pair (H, H' = H with one read inserted):
  outputs equal                                              -> ok
  differ, H or H' unsafe, and the heap model predicts both   -> KNOWN-FINDING K1 (lazy selections alias their source until first read)
  differ otherwise                                           -> VIOLATION
"""
import vlib
from vlib import show, parse, oracle, guarded
from harness.c02 import enc_rsel

TRUSTED = [vlib.KERNEL_TB, vlib.AXIOMS_TB, vlib.EXTRACT_TB,
           "Model/Heap.v as a faithful model of buffer sharing (RaggedBase._change_view shares, _flatten_myself copies); tied by running every history on both",
           "this harness: history generator, mapping of operations to Python statements"]
ASSUME = ["single-threaded histories over RaggedArray construction, lazy selection (row selector + optional column slice), materialising and "
          "non-materialising reads, scalar assignment",
          "C10_partial is proved under the guard safe_run on both histories; outside the guard the statement is false (C10_refuted_witness) and the pair is "
          "classified as the known finding K1 only when the heap model predicts the implementation's outputs exactly"]
RULE = ("seeded random histories: 1-2 built arrays (shapes with empty rows), then 2..6 (thorough: ..8) operations from select / read / assign over all arrays "
        "in scope; each history is run once as is and once per (position, array, read kind) with one extra read inserted (all positions; seeded choice of "
        "array and kind; kinds: tolist str ravel sum ufunc concatenate iter int-row | len shape size discarded-selection str-and-nothing-else); compared: every read output and the "
        "final content of every array; non-trivial = the history contains an assignment and a selection; distinct = distinct (history, insertion)")
MAT_READS = ["tolist", "str", "ravel", "sum", "ufunc", "concatenate", "iter", "introw", "mean", "max", "gtcol", "mulcol", "subcol", "sort", "where", "nonzero", "sum0", "colcounts", "padded", "accumulate", "nonzero_m", "elemarr", "negcol", "where_x"]
PEEKS = ["len", "shape", "size", "peeksel", "strpeek"]      # strpeek: print the array and nothing else (str() works on a[:20], a new array)
BASES = [[[0, 1, 2], [3, 4], [5], [6, 7]], [[], [0, 1], [2], []], [[0, 1, 2, 3], [4, 5, 6], [7, 8, 9, 10]], [[0], [], [1, 2]]]


def sel_shape(lens, rs, cs):
    """row lengths after the selection (python list semantics on the lengths)"""
    if isinstance(rs, slice): l2 = lens[rs]
    elif rs and isinstance(rs[0], bool): l2 = [l for l, b in zip(lens, rs) if b]
    else: l2 = [lens[i] for i in rs]
    if cs is not None: l2 = [len(range(*cs.indices(l))) for l in l2]
    return l2


def gen_sel(rng, lens, allow_empty=True):
    n = len(lens)
    k = rng.random()
    if k < .45:
        rs = slice(rng.choice([None, 0, 1, -1, -2, n]), rng.choice([None, 1, 2, -1, n, n + 1]), rng.choice([None, None, 1, 2, -1, -2]))
    elif k < .7 and n:
        rs = [rng.randrange(-n, n) for _ in range(rng.randint(1, 3))]
    elif k < .85 and n:
        rs = [rng.random() < .6 for _ in range(n)]
    else:
        rs = slice(None)
    cs = None
    if rng.random() < .4:
        cs = slice(rng.choice([None, 0, 1, -1, 2]), rng.choice([None, None, 1, 2, -1, 5]), rng.choice([None, None, 1, 2, -1, -2]))
    return rs, cs


COLS = [1e16, 0.1, 0.3, 1e-3, 7.0, 0.5, 2.0, 1e8]


def read_result(x, kind):
    """the read's own result (a pure function of the array's content), canonicalised"""
    import numpy as np
    from npstructures import RaggedArray
    from harness.fam_ra2 import ra_obs, kl
    n = len(x)
    col = np.array([COLS[i % len(COLS)] for i in range(n)])[:, None]
    with np.errstate(all="ignore"):
        if kind == "sum": return kl(x.sum(axis=-1))
        if kind == "ufunc": return ra_obs(x + 1)
        if kind == "concatenate": return ra_obs(np.concatenate([x, x]))
        if kind == "mean": return kl(x.mean(axis=-1))
        if kind == "max": return kl(x.max(axis=-1)) if n and min(np.asarray(x.lengths).tolist()) > 0 else None
        if kind == "gtcol": return ra_obs(x > col) if n else None
        if kind == "mulcol": return ra_obs(x * col) if n else None
        if kind == "subcol": return ra_obs(x - x.mean(axis=-1, keepdims=True)) if n and min(np.asarray(x.lengths).tolist()) > 0 else None
        if kind == "sort": return ra_obs(x.sort(axis=-1))
        if kind == "where": return ra_obs(np.where(x > 3, x, 0))
        if kind == "nonzero": return [kl(a) for a in np.nonzero(x)]
        if kind == "sum0": return kl(x.sum(axis=0)) if n and max(np.asarray(x.lengths).tolist()) > 0 else None
        if kind == "colcounts": return kl(x.col_counts()) if n and max(np.asarray(x.lengths).tolist()) > 0 else None
        if kind == "padded": return kl(x.as_padded_matrix()) if n and max(np.asarray(x.lengths).tolist()) > 0 else None
        if kind == "accumulate": return ra_obs(np.add.accumulate(x, axis=-1))
        if kind == "where_x":         # the array as the SECOND argument of np.where (the mask is another, freshly built ragged array and dispatches)
            lens_ = np.asarray(x.lengths).tolist()
            mrows = [[(i + j) % 2 == 0 for j in range(l)] for i, l in enumerate(lens_)]
            return ra_obs(np.where(RaggedArray(mrows, dtype=bool), x, RaggedArray([[-1.0] * l for l in lens_], dtype=float))) if n else None
        if kind == "negcol":          # a column counted from the row ends, as the first thing asked of the array (a lazily strided view keeps its own step)
            ml = min(np.asarray(x.lengths).tolist()) if n else 0
            return [kl(x[:, -1]), kl(x[:, -2]) if ml >= 2 else None] if ml >= 1 else None
        if kind == "nonzero_m": return [kl(a) for a in x.nonzero()]          # the method spelling
        if kind == "elemarr":       # element reads through index ARRAYS (one negative column); the index arrays are the caller's and must be left alone
            lens = np.asarray(x.lengths).tolist(); rows = np.array([i for i, l in enumerate(lens) if l > 0], dtype=int)
            if not len(rows): return None
            cols = np.array([-1 if k % 2 == 0 else 0 for k in range(len(rows))], dtype=int)
            r0, c0 = rows.copy(), cols.copy()
            v = x[rows, cols]
            return [kl(v), bool((rows == r0).all() and (cols == c0).all())]
    return None


def run_impl(ops):
    """execute a history on the real code; returns the list of outputs (None for operations without output); a materialising read
    outputs [its own result, the array's content after it]"""
    import numpy as np
    from npstructures import RaggedArray
    vars_ = []; outs = []
    def py_index(rs, cs):
        r = np.array(rs) if isinstance(rs, list) else rs
        return r if cs is None else (r, cs)
    for o in ops:
        k = o[0]
        if k == "build":
            vars_.append(RaggedArray(o[1], dtype=float)); outs.append(None)
        elif k == "select":
            vars_.append(vars_[o[1]][py_index(o[2], o[3])]); outs.append(None)
        elif k == "assign":
            vars_[o[1]][py_index(o[2], o[3])] = o[4]; outs.append(None)
        elif k == "rowassign":          # the same write spelled through the row that a[i] returns: r = a[i]; r[0] = v
            r = vars_[o[1]][o[2]]; r[0] = o[3]; outs.append(None)
        elif k == "read":
            x = vars_[o[1]]; kind = o[2]; res = None
            if kind == "tolist": x.tolist()
            elif kind == "str": str(x)
            elif kind == "ravel": x.ravel()
            elif kind == "iter": list(iter(x))
            elif kind == "introw":
                if len(x): x[0]
                else: x.tolist()
            elif kind == "len": len(x)
            elif kind == "shape": x.shape
            elif kind == "size": x.size
            elif kind == "peeksel": x[0:1]
            elif kind == "strpeek": str(x)
            else: res = read_result(x, kind)
            outs.append([res, [[int(v) for v in r] for r in x.tolist()]] if kind in MAT_READS else "peek")
    return outs


def model_results(ops, contents):
    """what the reads of a history return when every array has the content the heap model says it has at that moment"""
    from npstructures import RaggedArray
    out = []
    reads = [o for o in ops if o[0] == "read" and o[2] in MAT_READS]
    for o, c in zip(reads, contents):
        kind = o[2]
        if c is None or kind in ("tolist", "str", "ravel", "iter", "introw"): out.append([None, c]); continue
        exp = guarded(lambda: read_result(RaggedArray(c, dtype=float), kind))
        if kind == "elemarr" and isinstance(exp, list): exp = [exp[0], True]          # the caller's index arrays are never written to
        out.append([exp, c])
    return out


def enc_ops(ops):
    enc = []
    for o in ops:
        if o[0] == "build": enc.append([0, o[1]])
        elif o[0] == "select": enc.append([1, o[1], enc_rsel(o[2]), None if o[3] is None else [o[3].start, o[3].stop, o[3].step]])
        elif o[0] == "assign": enc.append([3, o[1], enc_rsel(o[2]), None if o[3] is None else [o[3].start, o[3].stop, o[3].step], o[4]])
        elif o[0] == "rowassign": enc.append([3, o[1], enc_rsel([o[2]]), [0, 1, None], o[3]])
        elif o[0] == "read" and o[2] in MAT_READS: enc.append([2, o[1]])
        # non-materialising reads have no effect in the heap machine and no op
    return enc


def py_text(ops):
    t = []; nv = 0
    for o in ops:
        idx = lambda rs, cs: (repr(rs) if cs is None else f"({rs!r}, {cs!r})").replace("slice(None, None, None)", ":")
        if o[0] == "build": t.append(f"v{nv} = RaggedArray({o[1]})"); nv += 1
        elif o[0] == "select": t.append(f"v{nv} = v{o[1]}[{idx(o[2], o[3])}]"); nv += 1
        elif o[0] == "assign": t.append(f"v{o[1]}[{idx(o[2], o[3])}] = {o[4]}")
        elif o[0] == "rowassign": t.append(f"r = v{o[1]}[{o[2]}]; r[0] = {o[3]}")
        else: t.append(f"read:{o[2]}(v{o[1]})")
    return "; ".join(t)


def gen_history(rng, tier):
    ops = []; shapes = []
    for _ in range(rng.choice([1, 1, 2])):
        b = rng.choice(BASES); ops.append(("build", b)); shapes.append([len(r) for r in b])
    n_ops = rng.randint(2, 8 if tier == "thorough" else 6)
    for _ in range(n_ops):
        x = rng.randrange(len(shapes)); lens = shapes[x]
        k = rng.random()
        if k < .4:
            rs, cs = gen_sel(rng, lens)
            ops.append(("select", x, rs, cs)); shapes.append(sel_shape(lens, rs, cs))
        elif k < .62:
            rs, cs = gen_sel(rng, lens)
            ops.append(("assign", x, rs, cs, rng.choice([99, 77, -5])))
        elif k < .7:
            ne = [i for i, l in enumerate(lens) if l > 0]
            if ne: ops.append(("rowassign", x, rng.choice(ne), rng.choice([55, -8])))
        else:
            ops.append(("read", x, rng.choice(MAT_READS)))
    final = [("read", x, "tolist") for x in range(len(shapes))]
    return ops, final, len(shapes)


def shared_buffer_stage(R, tier, rng):
    """arrays built directly on numpy views of another array's flat buffer (reversed, strided, offset): whatever the sharing is, it is the same
    with and without an inserted read.  No lazy selection is involved, so no history of this stage is in the class of the known finding;
    the two runs are compared with each other (the property's own statement)."""
    import numpy as np
    from npstructures import RaggedArray
    from harness.fam_ra2 import kl
    VIEWS = [("[::-1]", lambda f: f[::-1], lambda n: n), ("[1::2]", lambda f: f[1::2], lambda n: n // 2), ("[2:]", lambda f: f[2:], lambda n: max(n - 2, 0)), ("[::-2]", lambda f: f[::-2], lambda n: (n + 1) // 2)]
    for bi, B in enumerate(BASES + [[[1.5, 2.0, 4.0], [8.0, 0.5, 0.25]], [[3, 1, 2]]]):
        total = sum(len(r) for r in B)
        for vname, vf, vlen in VIEWS:
            m = vlen(total)
            if m <= 0: continue
            lens = [m // 2, m - m // 2]
            cells = [(i, j) for i, r in enumerate(B) for j in range(len(r))]
            for kind in MAT_READS[:16] + PEEKS:
                ci, cj = cells[(bi + len(kind)) % len(cells)]
                def program(with_read):
                    src = RaggedArray(B, dtype=float); child = RaggedArray(vf(src.ravel()), lens)
                    if with_read:
                        if kind in PEEKS: (len(child), child.shape, child.size)
                        elif kind == "tolist": child.tolist()
                        elif kind == "str": str(child)
                        elif kind == "ravel": child.ravel()
                        elif kind == "iter": list(iter(child))
                        elif kind == "introw": child[0]
                        else: read_result(child, kind)
                    src[ci, cj] = 99.0
                    a = [kl(child.tolist()), kl(src.tolist())]
                    child[0, 0] = -7.0 if lens[0] else child
                    return a + [kl(child.tolist()), kl(src.tolist())]
                without = guarded(lambda: program(False)); withr = guarded(lambda: program(True))
                R.record(f"shared-buffer {B} view{vname} lengths {lens} read:{kind}", withr, without, without, True, "shared-buffer/" + kind,
                         py=f"src = RaggedArray({B}, dtype=float); child = RaggedArray(src.ravel(){vname}, {lens}); [read:{kind}(child)]; src[{ci},{cj}] = 99; child.tolist(); src.tolist(); child[0,0] = -7; ...")


def print_stage(R, tier, rng):
    """printing (str) and the size queries of a selection that nobody has read yet: the later results are the same with and without them
    (the two runs are compared with each other; the printed text itself is compared with the rows)"""
    import numpy as np
    from npstructures import RaggedArray
    from harness.fam_ra2 import kl
    big = [[float(10 * i + j) for j in range(i % 4)] for i in range(30)]
    SELS = [("[1:3]", lambda a: a[1:3]), ("[[2, 0]]", lambda a: a[[2, 0]]), ("[:, 1:]", lambda a: a[:, 1:]), ("[::-1]", lambda a: a[::-1]),
            ("[mask]", lambda a: a[np.array([i % 2 == 0 for i in range(len(a))])]), ("[1:, ::-1]", lambda a: a[1:, ::-1])]
    for B in BASES + [big]:
        for sname, sel in SELS:
            for kind in ("str", "len-shape-size", "str-twice"):
                def program(with_read):
                    src = RaggedArray(B, dtype=float); v = sel(src); txt = None
                    if with_read:
                        if kind == "str": txt = str(v)
                        elif kind == "str-twice": str(v); txt = str(v)
                        else: (len(v), v.shape, v.size)
                    for i in range(len(B)):
                        if len(B[i]): src[i] = -src[i] - 1
                    return [kl(v.tolist()), kl(src.tolist())], txt
                without = guarded(lambda: program(False)[0]); withr = guarded(lambda: program(True)[0])
                R.record(f"print-unread-selection {B if len(B) < 9 else '30 rows'}{sname} read:{kind}", withr, without, without, True, "unread-selection/" + kind,
                         py=f"src = RaggedArray({B if len(B) < 9 else '[[10*i+j for j in range(i%4)] for i in range(30)]'}, dtype=float); v = src{sname}; [{kind}(v)]; src[i] = -src[i] - 1 for every non-empty row; v.tolist(); src.tolist()")


def source_read_stage(R, tier, rng):
    """a read of the SOURCE (row reductions, printing, size queries: whatever the source may cache about itself) before a selection that keeps
    the number of rows but not the rows (a repeated index, a permutation, a reversal, a mask of all rows): the selection's size, cells,
    row reductions and running sums are the same with and without that read (the two runs are compared with each other, the run without
    the read with plain lists)"""
    import numpy as np
    from npstructures import RaggedArray
    from harness.fam_ra2 import kl
    SRC = [[[1, 2, 3], [4], [5, 6]], [[7], [1, 2, 3, 4], [5, 6], [9, 9, 9]], [[1, 2], [3, 4, 5, 6, 7], [8]], [[1], [2, 3]]]
    READS = [("sum(axis=-1)", lambda a: a.sum(axis=-1)), ("max(axis=-1)", lambda a: a.max(axis=-1)), ("repr", lambda a: repr(a)), ("size", lambda a: a.size),
             ("str", lambda a: str(a)), ("mean(axis=-1)", lambda a: a.mean(axis=-1)), ("nonzero", lambda a: np.nonzero(a)), ("ravel", lambda a: a.ravel()), ("tolist", lambda a: a.tolist())]
    for B in SRC:
        n = len(B)
        IDX = [[0] * (n - 1) + [n - 1], [n - 1] * n, [0, 0] + list(range(2, n)), list(range(n))[::-1], [(i + 1) % n for i in range(n)], [-1] + list(range(1, n))]
        for idx in IDX:
            rows = [B[i] for i in idx]
            want = [sum(len(r) for r in rows), kl(rows), kl([sum(r) for r in rows]), kl([list(np.cumsum(r)) for r in rows]), [len(r) for r in rows]]
            for spell, mkidx in (("list", lambda: list(idx)), ("array", lambda: np.array(idx))):
                for rname, rd in READS:
                    def program(with_read):
                        a = RaggedArray(B)
                        if with_read: rd(a)
                        b = a[mkidx()]
                        return [int(b.size), kl(b.tolist()), kl(np.asarray(b.sum(axis=-1))), kl(np.add.accumulate(b, axis=-1).tolist()), [int(x) for x in b.shape[-1]]]
                    withr = guarded(lambda: program(True)); without = guarded(lambda: program(False))
                    R.record(f"source-read {B}[{spell} {idx}] read:{rname}", withr, without, want, True, "source-read-then-select/" + rname,
                             py=f"a = RaggedArray({B}); [{rname} of a]; b = a[{idx}]  ({spell}); b.size, b.tolist(), b.sum(axis=-1), np.add.accumulate(b, axis=-1).tolist(), b.shape[-1]")


def run(R, tier, rng):
    shared_buffer_stage(R, tier, rng)
    print_stage(R, tier, rng)
    source_read_stage(R, tier, rng)
    n_hist = 2500 if tier == "thorough" else 700
    pairs = []          # (H ops, H' ops, insertion position, description)
    # the refuting witness of C10_refuted_witness first (corpus)
    W = [("build", BASES[0]), ("select", 0, slice(1, 3), None), ("assign", 0, [1], None, 99)]
    hist = [(W, [("read", 1, "tolist")], 2)]
    # deterministic corpus: a selection of a selection (column steps composed on a lazy view), with and without a read of the first one
    for b in BASES[:3]:
        for cs1 in (slice(None, None, 2), slice(None, None, -1), slice(1, None, 3), slice(None, None, -2), slice(1, None)):
            for rs2, cs2 in ((slice(None), slice(1, None)), (slice(None), slice(None, 2)), (slice(None), slice(None, None, -1)), (slice(1, None), None), (slice(None, None, -1), slice(-2, None)), ([0, -1], None)):
                ops_ = [("build", b), ("select", 0, slice(None), cs1), ("select", 1, rs2, cs2)]
                hist.append((ops_, [("read", 2, "tolist"), ("read", 1, "tolist"), ("read", 0, "tolist")], 3))
    for _ in range(n_hist): hist.append(gen_history(rng, tier))
    lines = []; meta = []
    for ops, final, nvars in hist:
        base = ops + final
        variants = [(2, ("read", 1, "str"))] if ops is W else []
        for i in range(1, len(ops) + 1):
            avail = sum(1 for o in ops[:i] if o[0] in ("build", "select"))
            if not avail: continue
            x = rng.randrange(avail); kind = rng.choice(MAT_READS + MAT_READS + PEEKS)
            variants.append((i, ("read", x, kind)))
        for i, rd in variants:
            mod = ops[:i] + [rd] + ops[i:] + final
            meta.append((base, mod, i, rd))
            lines.append("heap " + show(enc_ops(base))); lines.append("heap " + show(enc_ops(mod)))
    out = oracle(lines)
    mismatch = []; n_unsafe = 0; n_hist_run = 0
    for k, (base, mod, i, rd) in enumerate(meta):
        case = "pair " + lines[2 * k][5:] + " + read@" + str(i) + ":" + rd[2] + "(v" + str(rd[1]) + ")"
        if R.only is not None and case not in R.only: continue
        ib = guarded(lambda: run_impl(base)); im = guarded(lambda: run_impl(mod))
        n_hist_run += 2
        def reads(ops, outs):           # outputs of materialising reads, in order
            return None if outs is None else [o for op, o in zip(ops, outs) if op[0] == "read" and op[2] in MAT_READS]
        def drop(ops, outs, i):         # outputs of H' without the inserted operation's own output
            return None if outs is None else reads(ops[:i] + ops[i + 1:], outs[:i] + outs[i + 1:])
        rb, rm = reads(base, ib), drop(mod, im, i)
        ob, om = out[2 * k], out[2 * k + 1]
        if ob.startswith("ERR") or om.startswith("ERR"):
            R.record(case, [rb, rm], "oracle-error " + ob[:60], [rb, rb], True, "pair"); continue
        mb, vb, safe_b = parse(ob); mm, vm, safe_m = parse(om)
        mods = [o for o in mod if not (o[0] == "read" and o[2] in PEEKS)]
        j = len([o for o in mod[:i] if not (o[0] == "read" and o[2] in PEEKS)])
        model_b = model_results(base, [o for o in mb if o is not None])
        full_m = model_results(mod, [o for o in mm if o is not None])
        model_m = list(full_m)
        if rd[2] in MAT_READS:
            del model_m[len([o for o in mod[:i] if o[0] == "read" and o[2] in MAT_READS])]
        unsafe = not (safe_b and safe_m)
        n_unsafe += unsafe
        if rb != model_b or (im is not None and reads(mod, im) != full_m):
            mismatch.append(case)
        nt = any(o[0] in ("assign", "rowassign") for o in base) and any(o[0] == "select" for o in base)
        R.record(case, [rb, rm], [model_b, model_m], [rb, rb], nt, "pair/" + ("unsafe" if unsafe else "safe") + "/" + rd[2],
                 cls="K1-write-into-shared-buffer" if unsafe else None, py=py_text(base) + "   ||  insert at %d: read:%s(v%d)" % (i, rd[2], rd[1]))
        # inside the guard the theorem says the heap machine equals value semantics: the model itself must agree with it there
        if not unsafe and ([o for o in mb if o is not None] != [o for o in vb if o is not None]):
            R.internal.append({"case": case, "model": mb, "spec": vb})
    R.notes["histories_run_on_implementation"] = n_hist_run
    R.notes["pairs_outside_the_guard_of_C10_partial"] = n_unsafe
    R.ties.append({"tie": "implementation = heap model (Model/Heap.v) on every history, safe or not", "ok": not mismatch,
                   "detail": f"{len(mismatch)} histories differ" + (": " + mismatch[0][:300] if mismatch else "")})
