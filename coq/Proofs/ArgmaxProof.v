From Coq Require Import ZifyBool.
From NPS Require Import ListAux PySlice NumpySem Scatter BuildIdx SliceAP Denote RLE RLEProof RLEOps RaOps RLE2d SetItem LexSort SortProof NonzeroProof.
Open Scope Z_scope.

(* C05: argmax / argmin (after repairs F3, F3b): m = row extremum (keepdims), rows, cols = nonzero(ra == m),
   first occurrence of every row id (np.unique(rows, return_index=True) on the sorted row ids), cols at those positions *)

(* the first position holding v *)
Lemma first_index_shift v : forall l i,
  (fix go (i : Z) (l : list Z) := match l with [] => i | x :: r => if x =? v then i else go (i + 1) r end) i l
  = i + first_index_of v l.
Proof.
  unfold first_index_of. induction l as [|x l IH]; intros i; [lia|]. destruct (x =? v); [lia|]. rewrite IH, (IH (0 + 1)). lia.
Qed.
Lemma first_index_cons v x l : first_index_of v (x :: l) = if x =? v then 0 else 1 + first_index_of v l.
Proof. unfold first_index_of at 1. destruct (x =? v); [reflexivity|]. apply first_index_shift. Qed.

(* the non-zero cells of one row of the comparison, as (row, column) lists *)
Definition hits (m : Z) (r : list Z) (j0 : Z) : list Z :=
  map fst (filter (fun jc => snd jc =? m) (combine (ap j0 (zlen r) 1) r)).

Lemma hits_cons m x r j0 : hits m (x :: r) j0 = (if x =? m then [j0] else []) ++ hits m r (j0 + 1).
Proof.
  unfold hits. unfold ap. replace (Z.to_nat (zlen (x :: r))) with (S (Z.to_nat (zlen r))) by (unfold zlen; cbn [length]; lia).
  cbn [ap_nat combine filter snd]. destruct (x =? m); reflexivity.
Qed.
Lemma hits_first m : forall r j0, In m r -> exists t, hits m r j0 = (j0 + first_index_of m r) :: t.
Proof.
  induction r as [|x r IH]; intros j0 H; [destruct H|]. rewrite hits_cons, first_index_cons. destruct (x =? m) eqn:E.
  - eexists. cbn [app]. f_equal. lia.
  - destruct H as [H|H]; [lia|]. destruct (IH (j0 + 1) H) as [t Ht]. exists t. cbn [app]. rewrite Ht. f_equal. lia.
Qed.

Lemma row_nz k m : forall r j0,
  filter (fun c : Z * Z * Z => negb (snd c =? 0))
         (map (fun jc => (k, fst jc, snd jc)) (combine (ap j0 (zlen (map (fun x => if x =? m then 1 else 0) r)) 1) (map (fun x => if x =? m then 1 else 0) r)))
  = map (fun j => (k, j, 1)) (hits m r j0).
Proof.
  induction r as [|x r IH]; intros j0; [reflexivity|]. rewrite hits_cons.
  unfold ap. replace (Z.to_nat (zlen (map (fun x0 => if x0 =? m then 1 else 0) (x :: r)))) with (S (Z.to_nat (zlen (map (fun x0 => if x0 =? m then 1 else 0) r))))
    by (unfold zlen; cbn [map length]; lia).
  cbn [map ap_nat combine filter fst snd]. fold (ap (j0 + 1) (zlen (map (fun x0 => if x0 =? m then 1 else 0) r)) 1).
  destruct (x =? m); cbn [negb Z.eqb app map]; rewrite IH; reflexivity.
Qed.

Fixpoint nz_rows (k : Z) (R : list (list Z)) (ms : list Z) : list Z :=
  match R, ms with r :: R', m :: ms' => map (fun _ => k) (hits m r 0) ++ nz_rows (k + 1) R' ms' | _, _ => [] end.
Fixpoint nz_cols (R : list (list Z)) (ms : list Z) : list Z :=
  match R, ms with r :: R', m :: ms' => hits m r 0 ++ nz_cols R' ms' | _, _ => [] end.

Lemma cells_from_cons k (mr : list Z) M :
  cells_from k (mr :: M) = map (fun jc => (k, fst jc, snd jc)) (combine (ap 0 (zlen mr) 1) mr) ++ cells_from (k + 1) M.
Proof.
  unfold cells_from. unfold ap at 2. replace (Z.to_nat (zlen (mr :: M))) with (S (length M)) by (unfold zlen; cbn [length]; lia).
  cbn [ap_nat combine map concat fst snd]. f_equal. unfold ap at 3. unfold zlen at 3. now rewrite Nat2Z.id.
Qed.

Lemma nonzero_eq_rows : forall R ms k,
  let nz := filter (fun c : Z * Z * Z => negb (snd c =? 0)) (cells_from k (eq_rows R ms)) in
  map (fun c => fst (fst c)) nz = nz_rows k R ms /\ map (fun c => snd (fst c)) nz = nz_cols R ms.
Proof.
  induction R as [|r R IH]; intros [|m ms] k; cbn zeta; try (split; reflexivity).
  unfold eq_rows. cbn [map2]. fold (eq_rows R ms). rewrite cells_from_cons, filter_app, row_nz, !map_app, !map_map. cbn [fst snd nz_rows nz_cols].
  destruct (IH ms (k + 1)) as [H1 H2]. cbn zeta in H1, H2. rewrite H1, H2. rewrite map_id. split; reflexivity.
Qed.

(* first occurrences in a list of blocks of equal labels *)
Lemma fnz_false : forall n off M, fnz_from off (repeat false n ++ M) = fnz_from (off + Z.of_nat n) M.
Proof.
  induction n as [|n IH]; intros off M; [cbn; f_equal; lia|]. cbn [repeat app fnz_from]. rewrite IH. f_equal. lia.
Qed.
Lemma cm_block k : forall (t : list Z) rest, change_mask (Some k) (map (fun _ => k) t ++ rest) = repeat false (length t) ++ change_mask (Some k) rest.
Proof. induction t as [|x t IH]; intros rest; [reflexivity|]. cbn [map app change_mask length repeat]. rewrite Z.eqb_refl. cbn [negb]. now rewrite IH. Qed.

Definition arg_spec (R : list (list Z)) (ms : list Z) : list Z :=
  flat_map (fun rm => match fst rm with [] => [] | _ => [first_index_of (snd rm) (fst rm)] end) (combine R ms).

Lemma first_occurrences : forall R ms k prev pre,
  (forall r m, In (r, m) (combine R ms) -> r <> [] -> In m r) ->
  (match prev with None => True | Some p => p < k end) ->
  map (fun i => nth (Z.to_nat i) (pre ++ nz_cols R ms) 0) (fnz_from (zlen pre) (change_mask prev (nz_rows k R ms))) = arg_spec R ms.
Proof.
  induction R as [|r R IH]; intros [|m ms] k prev pre Hin Hprev; try reflexivity.
  cbn [nz_rows nz_cols]. unfold arg_spec. cbn [combine flat_map fst snd]. fold (arg_spec R ms).
  assert (Hin' : forall r0 m0, In (r0, m0) (combine R ms) -> r0 <> [] -> In m0 r0) by (intros r0 m0 H; apply Hin; now right).
  destruct r as [|x r].
  - cbn [app]. unfold hits. cbn [app map]. apply (IH ms (k + 1) prev pre Hin'). destruct prev; [lia|exact I].
  - assert (Hm : In m (x :: r)) by (apply Hin; [now left|discriminate]).
    destruct (hits_first m (x :: r) 0 Hm) as [t Ht]. rewrite Ht. cbn [map app].
    cbn [change_mask]. assert (Etrue : (match prev with None => true | Some p => negb (p =? k) end) = true) by (destruct prev; [lia|reflexivity]).
    rewrite Etrue. cbn [fnz_from]. rewrite cm_block, fnz_false. cbn [map]. f_equal.
    + unfold zlen. rewrite Nat2Z.id, app_nth2 by lia. rewrite Nat.sub_diag. cbn [nth]. lia.
    + specialize (IH ms (k + 1) (Some k) (pre ++ (0 + first_index_of m (x :: r)) :: t) Hin' ltac:(lia)).
      rewrite <- app_assoc in IH. cbn [app] in IH.
      replace (zlen (pre ++ (0 + first_index_of m (x :: r)) :: t)) with (zlen pre + 1 + Z.of_nat (length t)) in IH by (unfold zlen; rewrite app_length; cbn [length]; lia).
      exact IH.
Qed.

Lemma max_in : forall r x, In (fold_left Z.max r x) (x :: r).
Proof.
  induction r as [|y r IH]; intros x; [now left|]. cbn [fold_left]. destruct (IH (Z.max x y)) as [H|H].
  - destruct (Z.max_spec x y) as [[_ E]|[_ E]]; rewrite E in *; [right; left; exact H|left; exact H].
  - right. now right.
Qed.
Lemma min_in : forall r x, In (fold_left Z.min r x) (x :: r).
Proof.
  induction r as [|y r IH]; intros x; [now left|]. cbn [fold_left]. destruct (IH (Z.min x y)) as [H|H].
  - destruct (Z.min_spec x y) as [[_ E]|[_ E]]; rewrite E in *; [left; exact H|right; left; exact H].
  - right. now right.
Qed.

Theorem arg_model_correct (R : list (list Z)) (ms : list Z) :
  (forall r m, In (r, m) (combine R ms) -> r <> [] -> In m r) -> arg_model R ms = arg_spec R ms.
Proof.
  intros H. unfold arg_model. rewrite nonzero_correct. unfold spec_nonzero. fold (cells_from 0 (eq_rows R ms)).
  destruct (nonzero_eq_rows R ms 0) as [H1 H2]. cbn zeta in H1, H2. rewrite H1, H2.
  unfold run_starts, flatnonzero. apply (first_occurrences R ms 0 None [] H I).
Qed.

(* instances: the row maxima / minima; the entries of empty rows are irrelevant (whatever reduceat left there) *)
Theorem argmax_correct (R : list (list Z)) (ms : list Z) : length ms = length R ->
  (forall r m, In (r, m) (combine R ms) -> r <> [] -> m = zmax_list r) -> arg_model R ms = argmax_rows R.
Proof.
  intros Hlen Hm. rewrite arg_model_correct.
  - unfold arg_spec, argmax_rows. revert ms Hlen Hm. induction R as [|r R IH]; intros [|m ms] Hlen Hm; cbn in Hlen; try discriminate; [reflexivity|].
    cbn [combine flat_map fst snd]. f_equal; [|apply IH; [lia|intros r0 m0 H; apply Hm; now right]].
    destruct r as [|x r]; [reflexivity|]. now rewrite (Hm (x :: r) m (or_introl eq_refl)) by discriminate.
  - intros r m Hin Hne. rewrite (Hm r m Hin Hne). destruct r as [|x r]; [congruence|]. apply max_in.
Qed.
Theorem argmin_correct (R : list (list Z)) (ms : list Z) : length ms = length R ->
  (forall r m, In (r, m) (combine R ms) -> r <> [] -> m = zminl r) -> arg_model R ms = argmin_rows R.
Proof.
  intros Hlen Hm. rewrite arg_model_correct.
  - unfold arg_spec, argmin_rows. revert ms Hlen Hm. induction R as [|r R IH]; intros [|m ms] Hlen Hm; cbn in Hlen; try discriminate; [reflexivity|].
    cbn [combine flat_map fst snd]. f_equal; [|apply IH; [lia|intros r0 m0 H; apply Hm; now right]].
    destruct r as [|x r]; [reflexivity|]. now rewrite (Hm (x :: r) m (or_introl eq_refl)) by discriminate.
  - intros r m Hin Hne. rewrite (Hm r m Hin Hne). destruct r as [|x r]; [congruence|]. apply min_in.
Qed.
Print Assumptions argmax_correct.
Print Assumptions argmin_correct.
