From Coq Require Import ZifyBool.
From NPS Require Import ListAux PySlice NumpySem SelRows DataClass.
Open Scope Z_scope.

(* C18: selecting with the same selector on every field = selecting entries (rows of the table) *)
Section DCP.
Variable E : Type.
Variable d : E.
(* the columns of a table given by its entries (rows), for k fields *)
Definition cols (k : nat) (R : list (list E)) : obj E := map (fun j => map (fun row => nth j row d) R) (seq 0 k).

Lemma rsequence_const {X Y} (r : res X) (fs : list (X -> Y)) : fs <> [] ->
  rsequence (map (fun f => rmap f r) fs) = rmap (fun x => map (fun f => f x) fs) r.
Proof.
  intros Hne. destruct r as [x|]; cbn [rmap].
  - clear Hne. induction fs as [|f fs IH]; [reflexivity|]. cbn [map rsequence]. now rewrite IH.
  - destruct fs as [|f fs]; [congruence|]. reflexivity.
Qed.

Theorem obj_select_entries (k : nat) (R : list (list E)) (s : rowsel) : (1 <= k)%nat ->
  obj_select E (cols k R) s = rmap (cols k) (sel_rows s R).
Proof.
  intros Hk. unfold obj_select, cols. rewrite map_map.
  rewrite (map_ext _ (fun j => rmap (map (fun row => nth j row d)) (sel_rows s R))) by (intros j; apply sel_rows_map).
  pose proof (rsequence_const (sel_rows s R) (map (fun j => map (fun row : list E => nth j row d)) (seq 0 k))) as H.
  rewrite map_map in H. rewrite H by (destruct k; [lia|discriminate]).
  destruct (sel_rows s R); cbn [rmap]; [|reflexivity]. now rewrite map_map.
Qed.

(* integer index: one entry *)
Theorem obj_item_entry (k : nat) (R : list (list E)) (i : Z) : (1 <= k)%nat ->
  obj_item E (cols k R) i = rmap (fun row => map (fun j => nth j row d) (seq 0 k)) (np_item R i).
Proof.
  intros Hk. unfold obj_item, cols. rewrite map_map.
  rewrite (map_ext _ (fun j => rmap (fun row => nth j row d) (np_item R i))) by (intros j; apply np_item_map).
  pose proof (rsequence_const (np_item R i) (map (fun j => fun row : list E => nth j row d) (seq 0 k))) as H.
  rewrite map_map in H. rewrite H by (destruct k; [lia|discriminate]).
  destruct (np_item R i); cbn [rmap]; [|reflexivity]. now rewrite map_map.
Qed.
End DCP.
Print Assumptions obj_select_entries.
