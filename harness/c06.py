"""C06 — a derived array behaves exactly like a freshly built equal array: two-step selection chains through lazy views."""
import vlib
from vlib import show, parse, oracle, parse2, guarded
from harness.c02 import enc_index

TRUSTED = ["Coq 8.16.1 kernel", "extraction (ExtrOcamlBasic, Z inductive) + oracle/driver.ml", "this harness"]
ASSUME = ["element values are flat positions (parametricity)", "chains of depth 2 are run; the theorem (chain_correct) covers every depth"]
RULE = ("3 base arrays x 14 first selections that return lazy views (row slices with steps, fancy rows, masks, column slices with either "
        "sign of step, combinations, Ellipsis) x every second index of a reduced C02 grammar on the derived shape; non-trivial = the first "
        "selection is not the identity; distinct = distinct protocol line")
BASES = [[[0, 1, 2, 3], [], [4, 5], [6, 7, 8], [9]], [[], [0, 1], [2]], [[0, 1, 2], [3, 4, 5]]]


def lazies(nr):
    return [slice(1, None), slice(None, None, -1), slice(None, None, 2), [nr - 1, 0, 0], [True] + [False] * (nr - 2) + [True] if nr >= 2 else [True] * nr,
            (slice(None), slice(None, None, 2)), (slice(None), slice(None, None, -1)), (slice(None), slice(1, None)), ([0, nr - 1], slice(1, 3)),
            (slice(None), slice(None, None, -2)), (slice(None, None, 2), slice(None, None, 1)), (Ellipsis, slice(0, 2)), (slice(None, None, -1), slice(-2, None)), Ellipsis]


def seconds(nr, mx):
    s = [Ellipsis, ()] + list(range(-nr - 1, nr + 1)) + [slice(None, None, -1), slice(1, None), slice(None, None, 2), [nr - 1, 0] if nr else [], [True] * nr]
    for rs in [slice(None), slice(None, None, -1), [nr - 1, 0] if nr else slice(None), 0, nr - 1, Ellipsis, [True] * nr]:
        for cs in list(range(-mx - 1, mx + 1)) + [slice(None, None, -1), slice(1, None), slice(None, None, 2), slice(None, -1), slice(None, None, -2), slice(-2, None), slice(1, None, -1), Ellipsis]:
            s.append((rs, cs))
    s.append(([0, nr - 1], [0, 0]))
    return s


def run(R, tier, rng):
    import numpy as np
    from npstructures import RaggedArray
    def to_py(idx):
        def c(x):
            if isinstance(x, list) and x and isinstance(x[0], bool): return np.array(x)
            if isinstance(x, list) and len(x) == 0: return np.array([], dtype=int)
            return x
        return tuple(c(x) for x in idx) if isinstance(idx, tuple) else c(idx)
    def canon(x):
        if isinstance(x, RaggedArray): return [2, x.tolist()]
        if isinstance(x, np.ndarray): return [1, x.tolist()] if x.ndim else [0, x.item()]
        return [0, int(x)]
    cases = []
    for B in BASES:
        for l1 in lazies(len(B)):
            try: R1 = RaggedArray(B, dtype=int)[to_py(l1)].tolist()
            except Exception: continue
            nr = len(R1); mx = max([len(r) for r in R1] + [0])
            for l2 in seconds(nr, mx):
                if isinstance(l2, list) and len(l2) == 0: continue
                try: e = canon(RaggedArray(B, dtype=int)[to_py(l1)][to_py(l2)])
                except Exception: e = None
                cases.append(("chain " + show(B) + " " + show(enc_index(l1)) + " " + show(enc_index(l2)), e, l1 is not Ellipsis, type(l1).__name__))
    out = oracle([c[0] for c in cases])
    for (line, impl, nt, kind), o in zip(cases, out):
        if o.startswith("ERR"): m = s = "oracle-error: " + o[:80]
        else: m, s = parse(o)
        R.record(line, impl, m, s, nt, kind)


# ------------------------------------------------------------------------------------------------------------------------
# Programs: every public operation applied to a derived (lazy) array must behave as on a freshly built equal array.
OBS_RULE = ("programs: 4 base arrays x lazy selection chains of depth 1 and 2 (row slices / fancy rows / masks / column slices of either sign / "
            "combinations) x ~70 observations (reads, int row, element, column, reductions over rows and columns, scans, sort, unique, diff, ufuncs "
            "with scalar / column / ragged operands, concatenate on both axes, where, like-functions, subset, mask index, ragged_slice, padded matrix, "
            "astype, to_numpy, iteration, and assignments of 4 value kinds followed by reading the derived array AND its source); each observation "
            "is applied to a new instance of the derived array and to RaggedArray(derived.tolist()); results must be equal")
PBASES = [[[0, 1, 2, 3], [], [4, 5], [6, 7, 8], [9]], [[], [10, 11], [12], []], [[20, 21, 22], [23, 24, 25]], [[5, 3, 5, 1], [2, 2], [7]]]


def p_lazies(nr):
    L = [slice(1, None), slice(None, None, -1), slice(None, None, 2), [nr - 1, 0, 0], [True] + [False] * (nr - 2) + [True] if nr >= 2 else [True] * nr,
         (slice(None), slice(None, None, 2)), (slice(None), slice(None, None, -1)), (slice(None), slice(1, None)), ([0, nr - 1], slice(1, 3)),
         (slice(None), slice(None, None, -2)), (slice(None, None, 2), slice(None, None, 1)), (Ellipsis, slice(0, 2)), (slice(None, None, -1), slice(-2, None)),
         slice(None, -1), [0], (slice(1, None), slice(None, -1))]
    return L


def observations(rows):
    """list of (name, function(array) -> canonical value); the functions are applied to the derived and to the fresh array"""
    import numpy as np
    from npstructures import RaggedArray, ragged_slice
    from harness.fam_ra2 import kl, ra_obs
    nr = len(rows); lens = [len(r) for r in rows]; mx = max(lens + [0]); mn = min(lens + [0]) if lens else 0
    O = []
    add = lambda name, f: O.append((name, f))
    add("tolist", lambda a: a.tolist()); add("len/size/shape", lambda a: [len(a), int(a.size), int(a.shape[0]), np.asarray(a.shape[1]).tolist(), np.asarray(a.lengths).tolist()])
    add("ravel", lambda a: kl(a.ravel())); add("iter", lambda a: [kl(r) for r in a]); add("str", lambda a: str(a)); add("dtype", lambda a: str(a.dtype))
    for i in sorted({0, nr - 1, -1, -nr, nr, 1} ):
        add(f"[{i}]", lambda a, i=i: kl(a[i]))
        for j in (0, -1, 1, mx):
            add(f"[{i},{j}]", lambda a, i=i, j=j: kl(a[i, j]))
    for j in (0, -1, mn - 1, mn):
        add(f"[:,{j}]", lambda a, j=j: ra_obs(a[:, j]))
        add(f"get_column_values({j})", lambda a, j=j: ra_obs(a.get_column_values(j)))
    if nr: add("[[0,-1],0]", lambda a: ra_obs(a[[0, -1], 0])); add("[[0,-1],[0,0]]", lambda a: ra_obs(a[[0, -1], [0, 0]]))
    for sl in (slice(None, None, -1), slice(1, None), slice(None, None, 2), slice(-2, None), slice(1, None, -1)):
        add(f"[:, {sl}]", lambda a, sl=sl: ra_obs(a[:, sl])); add(f"[{sl}]", lambda a, sl=sl: ra_obs(a[sl]))
        add(f"[::-1, {sl}]", lambda a, sl=sl: ra_obs(a[::-1, sl]))
    add("[...]", lambda a: ra_obs(a[...])); add("[()]", lambda a: ra_obs(a[()])); add("[..., 1:]", lambda a: ra_obs(a[..., 1:]))
    if nr: add("[list]", lambda a: ra_obs(a[[nr - 1, 0]])); add("[mask]", lambda a: ra_obs(a[np.array([i % 2 == 0 for i in range(nr)])]))
    for m in ("sum", "prod", "any", "all", "max", "min", "mean", "argmax", "argmin"):
        add(m + "(axis=-1)", lambda a, m=m: kl(getattr(a, m)(axis=-1)))
        add("np." + m + "(axis=-1)", lambda a, m=m: kl(getattr(np, m)(a, axis=-1)))
    for m in ("sum", "mean", "max", "prod"):
        add("np." + m + "()", lambda a, m=m: kl(getattr(np, m)(a)))
    add("sum(keepdims)", lambda a: kl(a.sum(axis=-1, keepdims=True)))
    add("sum(axis=0)", lambda a: kl(a.sum(axis=0))); add("np.sum(axis=0)", lambda a: kl(np.sum(a, axis=0))); add("mean(axis=0)", lambda a: kl(a.mean(axis=0)))
    add("col_counts", lambda a: kl(a.col_counts())); add("nonzero", lambda a: [kl(x) for x in np.nonzero(a)]); add("ra.nonzero", lambda a: [kl(x) for x in a.nonzero()])
    for side in ("left", "right"): add("padded/" + side, lambda a, side=side: kl(a.as_padded_matrix(side=side, fill_value=-7)))
    add("cumsum", lambda a: ra_obs(np.cumsum(a, axis=-1))); add("ra.cumsum", lambda a: ra_obs(a.cumsum(axis=-1)))
    for u in ("add", "subtract", "bitwise_xor"): add(u + ".accumulate", lambda a, u=u: ra_obs(getattr(np, u).accumulate(a, axis=-1)))
    for u in ("add", "multiply", "maximum", "bitwise_and"): add(u + ".reduce", lambda a, u=u: kl(getattr(np, u).reduce(a, axis=-1)))
    add("sort", lambda a: ra_obs(a.sort(axis=-1))); add("unique", lambda a: ra_obs(np.unique(a, axis=-1)))
    add("unique+counts", lambda a: [ra_obs(x) for x in np.unique(a, axis=-1, return_counts=True)])
    for k in (1, 2): add(f"diff({k})", lambda a, k=k: ra_obs(np.diff(a, n=k, axis=-1)))
    add("a+1", lambda a: ra_obs(a + 1)); add("2-a", lambda a: ra_obs(2 - a)); add("a*a", lambda a: ra_obs(a * a)); add("-a", lambda a: ra_obs(-a)); add("a>4", lambda a: ra_obs(a > 4))
    add("a+fresh", lambda a: ra_obs(a + RaggedArray([[1] * l for l in lens], dtype=int)))
    add("fresh-a", lambda a: ra_obs(RaggedArray([[1] * l for l in lens], dtype=int) - a))
    if nr: add("a+column", lambda a: ra_obs(a + np.arange(nr)[:, None])); add("column-a", lambda a: ra_obs(np.arange(nr)[:, None] - a))
    if nr:   # float columns whose entries differ hugely / are infinite: a column rebuilt from differences and running sums would not survive
        big = np.array([[float("inf"), 5.0, 8.0, 1e16, 1.0, 3.0][i % 6] for i in range(nr)])[:, None]
        add("minimum(a, inf-column)", lambda a: ra_obs(np.minimum(a, big))); add("a*big-column", lambda a: ra_obs(a * big)); add("big-column+a", lambda a: ra_obs(big + a))
        add("(a+1)*big-column", lambda a: ra_obs((a + 1) * big)); add("diff*big-column", lambda a: ra_obs(np.diff(a, axis=-1) * big))
        add("astype(float)+big-column", lambda a: ra_obs(a.astype(float) + big))
    add("concat0", lambda a: ra_obs(np.concatenate([a, a]))); add("concat0/fresh", lambda a: ra_obs(np.concatenate([RaggedArray([[1], []]), a])))
    add("concat1", lambda a: ra_obs(np.concatenate([a, a], axis=-1)))
    add("where", lambda a: ra_obs(np.where(a > 4, a, 0))); add("where/ragged", lambda a: ra_obs(np.where(a > 4, a, a * 2)))
    add("zeros_like", lambda a: ra_obs(np.zeros_like(a))); add("ones_like", lambda a: ra_obs(np.ones_like(a)))
    add("empty_like", lambda a: np.asarray(np.empty_like(a).lengths).tolist())
    add("subset", lambda a: ra_obs(a.subset(a > 4))); add("maskindex", lambda a: ra_obs(a[a > 4])); add("maskindex/fresh", lambda a: ra_obs(a[RaggedArray([[j % 2 == 0 for j in range(l)] for l in lens], dtype=bool)]))
    if nr:
        add("ragged_slice", lambda a: ra_obs(ragged_slice(a, np.array([min(1, l) for l in lens]), np.array(lens))))
        add("ragged_slice/neg", lambda a: ra_obs(ragged_slice(a, ends=np.array([-1 if l else 0 for l in lens]))))
    add("astype", lambda a: ra_obs(a.astype(float))); add("to_numpy", lambda a: kl(a.to_numpy_array()))
    add("equals", lambda a: bool(a.equals(RaggedArray(rows, dtype=int))))
    return O


def assignments(rows, rng):
    import numpy as np
    from npstructures import RaggedArray
    nr = len(rows); lens = [len(r) for r in rows]
    A = [("a[...]=scalar? (a[:]=5)", slice(None), 5), ("a[1:]=6", slice(1, None), 6), ("a[:,1:]=7", (slice(None), slice(1, None)), 7), ("a[::-1, ::2]=8", (slice(None, None, -1), slice(None, None, 2)), 8)]
    if nr:
        A += [("a[1:2]=12", slice(1, 2), 12), ("a[[-1]]=13", [-1], 13), ("a[-1:, ::2]=14", (slice(-1, None), slice(None, None, 2)), 14), ("a[:1]=15", slice(None, 1), 15)]
        A += [("a[0]=9", 0, 9), ("a[-1]=9", -1, 9), ("a[[0]]=column", [0], "column"), ("a[:]=ragged", slice(None), "ragged"), ("a[:]=column", slice(None), "column"),
              ("a[mask]=3", "mask", 3)]
        if lens[0]: A += [("a[0,0]=11", (0, 0), 11), ("a[0]=flat", 0, "flat")]
        A += [("a[ragged mask]=4", "rmask", 4)]
    return A


def run_programs(R, tier, rng, observe=True, assign=True, light=False):
    import numpy as np
    from npstructures import RaggedArray
    from harness.fam_ra2 import kl
    to_py = _to_py
    n_prog = 0
    for B in (PBASES[:2] if light else PBASES):
        first = p_lazies(len(B))
        chains = [[l] for l in first]
        # depth 2 (and 3 in the thorough tier)
        for l1 in first:
            try: r1 = RaggedArray(B, dtype=int)[to_py(l1)].tolist()
            except Exception: continue
            seconds = p_lazies(len(r1))
            pick = seconds if tier == "thorough" else rng.sample(seconds, 1 if light else 4)
            for l2 in pick:
                chains.append([l1, l2])
                if tier == "thorough" and rng.random() < .15:
                    try: r2 = RaggedArray(r1, dtype=int)[to_py(l2)].tolist()
                    except Exception: continue
                    chains.append([l1, l2, rng.choice(p_lazies(len(r2)))])
        for chain in chains:
            touched = (len(chain) + len(B) + n_prog) % 2 == 1          # every other program derives from a source that was read before
            def derive(src=None):
                a = RaggedArray(B, dtype=int) if src is None else src
                if touched:                                            # size / reductions / printing evaluated on the source first (caches, materialisation)
                    a.size; np.cumsum(a, axis=-1); str(a); a.sum(axis=-1)
                for l in chain: a = a[to_py(l)]
                return a
            try:
                rows = derive().tolist()
                if not isinstance(rows, list) or (rows and not isinstance(rows[0], list)): continue
            except Exception:
                continue
            cname = "prog " + show(B) + " " + " ".join(show(enc_index(l)) for l in chain)
            pyname = f"s = RaggedArray({B}); " + ("s.size; np.cumsum(s, axis=-1); str(s); s.sum(axis=-1); " if touched else "") + "d = s" + "".join(f"[{l!r}]" for l in chain)
            nt = len(rows) >= 2
            for name, f in (observations(rows) if observe else []):
                n_prog += 1
                impl = guarded(lambda: f(derive())); ref = guarded(lambda: f(RaggedArray(rows, dtype=int)))
                R.record(cname + " :: " + name, impl, ref, ref, nt, "observe/" + name.split("(")[0].split("[")[0][:14], py=pyname + f";  {name}  vs the same on RaggedArray({rows})")
            # sequences of observations on ONE derived object (a cache filled by the first must not mislead the second; reading must not
            # change what a later read returns), against the same sequence on a fresh equal array
            if observe:
                obs = observations(rows)
                for _ in range(30 if tier == "thorough" else 10):
                    (n1, f1), (n2, f2), (n3, f3) = rng.choice(obs), rng.choice(obs), rng.choice(obs)
                    def seq(mk):
                        d = mk(); r1 = guarded(lambda: f1(d)); r2 = guarded(lambda: f2(d)); r3 = guarded(lambda: f3(d)); r2b = guarded(lambda: f2(d))
                        return [r1, r2, r3, r2b]
                    n_prog += 1
                    impl = guarded(lambda: seq(derive)); ref = guarded(lambda: seq(lambda: RaggedArray(rows, dtype=int)))
                    R.record(cname + f" :: seq {n1} ; {n2} ; {n3} ; {n2}", impl, ref, ref, nt, "observe-sequence", py=pyname + f";  {n1}; {n2}; {n3}; {n2} on the same object  vs the same on RaggedArray({rows})")
            # assignments into the derived array: it changes like a fresh array, its source does not change
            for name, idx, v in (assignments(rows, rng) if assign else []):
                def do(a, parent=None):
                    lens = [len(r) for r in rows]
                    ix = idx
                    if idx == "mask": ix = np.array([i % 2 == 0 for i in range(len(rows))])
                    if idx == "rmask": ix = RaggedArray([[j % 2 == 1 for j in range(l)] for l in lens], dtype=bool)
                    sel = a[to_py(ix)] if not isinstance(ix, RaggedArray) else None
                    val = v
                    if v == "column":
                        k = len(sel) if sel is not None else 0; val = np.arange(100, 100 + k)[:, None]
                    elif v == "ragged": val = RaggedArray([[50 + j for j in range(l)] for l in np.asarray(sel.lengths).tolist()], dtype=int)
                    elif v == "flat": val = np.arange(60, 60 + len(rows[0]))
                    a[to_py(ix) if not isinstance(ix, RaggedArray) else ix] = val
                    return [a.tolist(), None if parent is None else parent.tolist()]
                def impl_f():
                    p = RaggedArray(B, dtype=int); return do(derive(p), p)
                def ref_f():
                    r = do(RaggedArray(rows, dtype=int)); return [r[0], B]
                impl = guarded(impl_f); ref = guarded(ref_f)
                n_prog += 1
                R.record(cname + " :: assign " + name, impl, ref, ref, nt, "assign", py=pyname + f";  d{name[1:]}; (d.tolist(), source.tolist())")
    R.notes["programs_run"] = n_prog


def _to_py(idx):
    import numpy as np
    def c(x):
        if isinstance(x, list) and x and isinstance(x[0], bool): return np.array(x)
        if isinstance(x, list) and len(x) == 0: return np.array([], dtype=int)
        return x
    return tuple(c(x) for x in idx) if isinstance(idx, tuple) else c(idx)


_run_chains = run
def big_derived_stage(R, tier, rng):
    """derived arrays of more than a thousand rows (blocks of adjacent rows, strided and listed rows, with a column slice): reading them,
    then assigning into them, gives what the plain lists give and leaves the source as it was"""
    import numpy as np
    from npstructures import RaggedArray
    from vlib import guarded
    n = 3000
    lens = [(i * 5) % 4 for i in range(n)]; lens[10] = 2; lens[11] = 0
    rows = []; c = 0
    for l in lens: rows.append(list(range(c, c + l))); c += l
    sels = [("a[10:1011]", slice(10, 1011), None), ("a[10:1010]", slice(10, 1010), None), ("a[5:2600]", slice(5, 2600), None), ("a[::2]", slice(None, None, 2), None),
            ("a[list(range(7, 1507))]", list(range(7, 1507)), None), ("a[2999:100:-1]", slice(2999, 100, -1), None), ("a[10:1500, 1:]", slice(10, 1500), slice(1, None)),
            ("a[mask of rows 3..2000]", [3 <= i <= 2000 for i in range(n)], None)]
    for name, rs, cs in sels:
        picked = [rows[i] for i in (range(n)[rs] if isinstance(rs, slice) else ([i for i, b in enumerate(rs) if b] if isinstance(rs[0], bool) else rs))]
        if cs is not None: picked = [r[cs] for r in picked]
        for read_first in (True, False):
            def f():
                a = RaggedArray(np.arange(c), lens)
                r_ = np.array(rs) if isinstance(rs, list) else rs
                b = a[r_] if cs is None else a[r_, cs]
                want = [list(r) for r in picked]
                ok_read = (b.tolist() == want) if read_first else True
                b[3] = -1; b[20:700] = -7; want[3] = [-1] * len(want[3]); want[20:700] = [[-7] * len(r) for r in want[20:700]]
                bad_b = [i for i, (x, y) in enumerate(zip(b.tolist(), want)) if x != y]
                bad_a = [i for i, (x, y) in enumerate(zip(a.tolist(), rows)) if x != y]
                return [ok_read, len(bad_b), bad_b[:3], len(bad_a), bad_a[:3]]
            R.record(f"big-derived {name} read_first={read_first}", guarded(f), [True, 0, [], 0, []], [True, 0, [], 0, []], True, "big-derived/assign-into-derived",
                     py=f"lens = [(i * 5) % 4 for i in range(3000)]; lens[10] = 2; lens[11] = 0; a = RaggedArray(np.arange(sum(lens)), lens); b = {name}; "
                        + ("b.tolist(); " if read_first else "") + "b[3] = -1; b[20:700] = -7; rows of b / of a differing from the plain lists")


def run(R, tier, rng):
    from harness import fam_ra2
    big_derived_stage(R, tier, rng)
    fam_ra2.ownership_stage(R, tier, rng)      # arrays derived by functions (concatenate, astype, where ...): writing into them changes no older array and vice versa
    _run_chains(R, tier, rng)
    run_programs(R, tier, rng)
RULE = RULE + " || " + OBS_RULE


def translator_tie():
    return vlib.translator_tie(["view", "elem"])
