"""HashTable / Counter histories (C11, C12): implementation vs Model/Hash.v + HashRun.v vs the association-list spec."""
from vlib import show, parse, oracle, parse2, guarded

TRUSTED = ["Coq 8.16.1 kernel", "extraction (ExtrOcamlBasic, Z inductive) + oracle/driver.ml (arbitrary-precision decimals)",
           "numpy int64 arithmetic for the hash (keys up to 2**62: no wrap-around in key mod m)", "this harness"]
POOL = [0, 1, 2, 5, 7, -1, -3, -8, 10, 17, 2 ** 31 + 3, 2 ** 62, -(2 ** 62), 12, 24]
ABSENT = [3, 4, 99, -2, 6, 2 ** 62 + 1]
RULE = ("random histories from the run seed: 1..6 distinct keys from a pool with negatives, collisions and +-2**62; modulus from "
        "{default,1,2,3,k,2k-1,7,12}; scalar or per-key initial values; 1..7 operations from lookup (with repeats), scalar lookup, HashSet membership with vector and scalar arguments, lookup with an absent "
        "key, vector / scalar assignment (20% with an absent key), fill, contains, items, and for counters count(batch) with keys, "
        "non-keys and empty batches; non-trivial = at least two keys and at least two operations; distinct = distinct protocol line")


def run_family(R, tier, rng, counter):
    import numpy as np
    from npstructures import HashTable, Counter
    from npstructures.hashtable import HashSet
    arr = lambda l: np.array(l, dtype=np.int64)
    cases = []
    for trial in range(12000 if tier == "thorough" else 3000):
        k = rng.randint(1, 6); keys = rng.sample(POOL, k)
        mod = rng.choice([None, 1, 2, 3, k, 2 * k - 1, 7, 12])
        scalar = rng.choice([0, 0, 5, None]) if counter else rng.choice([None, 0, 5])
        vals = [rng.randint(-5, 5) for _ in keys] if scalar is None else []
        is_set = (not counter) and trial % 5 == 4          # every fifth table history is a HashSet (membership only)
        if is_set: scalar, vals = 0, []
        try:
            t = Counter(keys, (vals if scalar is None else scalar), mod=mod) if counter else \
                HashSet(keys, mod=mod) if is_set else HashTable(keys, (vals if scalar is None else scalar), mod=mod, value_dtype=int)
        except Exception:
            continue
        ops = []; outs = []
        for step in range(rng.randint(1, 7)):
            kind = rng.choice(['contains', 'contains1']) if is_set else rng.choice(['get', 'get', 'getabs', 'set', 'sets', 'fill', 'contains', 'get1', 'items'] + (['count'] * 4 if counter else []))
            try:
                if kind == 'get':
                    q = [rng.choice(keys) for _ in range(rng.randint(1, 5))]; ops.append([0, q])
                    try: outs.append(np.asarray(t[arr(q)]).tolist())
                    except Exception: outs.append(None)
                elif kind == 'getabs':
                    q = [rng.choice(keys) for _ in range(rng.randint(0, 3))] + [rng.choice(ABSENT)]; rng.shuffle(q); ops.append([0, q])
                    try: outs.append(np.asarray(t[arr(q)]).tolist())
                    except Exception: outs.append(None)
                elif kind == 'set':
                    q = rng.sample(keys, rng.randint(1, k)); v = [rng.randint(-9, 9) for _ in q]; ops.append([1, q, v])
                    try: t[arr(q)] = arr(v); outs.append(1)
                    except Exception: outs.append(0)
                elif kind == 'sets':
                    q = rng.sample(keys, rng.randint(1, k)) + ([rng.choice(ABSENT)] if rng.random() < .2 else []); v = rng.randint(-9, 9); ops.append([2, q, v])
                    try: t[arr(q)] = v; outs.append(1)
                    except Exception: outs.append(0)
                elif kind == 'fill':
                    v = rng.randint(-9, 9); ops.append([3, v]); t.fill(v); outs.append(1)
                elif kind == 'contains':
                    q = [rng.choice(POOL + ABSENT) for _ in range(4)]; ops.append([4, q]); outs.append([int(b) for b in t.contains(arr(q))])
                elif kind == 'contains1':                   # scalar membership test (separate code path)
                    key = rng.choice(POOL + ABSENT); ops.append([4, [key]]); outs.append([int(bool(t.contains(key)))])
                elif kind == 'get1':                        # scalar lookup of a present key
                    key = rng.choice(keys); ops.append([0, [key]])
                    try: outs.append(np.asarray(t[key]).ravel().tolist())
                    except Exception: outs.append(None)
                elif kind == 'count':
                    s = [rng.choice(keys + ABSENT + keys) for _ in range(rng.randint(0, 8))]; ops.append([5, s]); t.count(arr(s)); outs.append(1)
                elif kind == 'items':
                    ops.append([6])
                    if isinstance(t._values, (int, np.integer)): outs.append(sorted([int(a), int(t._values)] for a in t._keys.ravel()))
                    else: outs.append(sorted([int(a), int(b)] for a, b in t.items()))
            except Exception as ex:
                outs.append("EXC:" + type(ex).__name__)
        line = "hash " + show(keys) + " " + show(vals) + " " + show(scalar) + " " + show(mod) + " " + show(ops)
        cases.append((line, outs, k >= 2 and len(ops) >= 2, "ops=%d" % len(ops)))
    out = oracle([c[0] for c in cases])
    norm = lambda o: [sorted(x) if (isinstance(x, list) and x and isinstance(x[0], list)) else x for x in o] if o is not None else None
    for (line, impl, nt, kind), o in zip(cases, out):
        if o.startswith("ERR"): m = s = "oracle-error: " + o[:80]
        else:
            m, s = parse(o); m = norm(m); s = norm(s)
        R.record(line, impl, m, s, nt, kind)
