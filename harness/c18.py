"""C18 — an npdataclass keeps its columns aligned: run-time generated dataclasses against Model/DataClass.v.

The model works on entry identifiers (field f, entry i -> 100*f+i); real entries are ints, floats or rows of a 2-D field derived from
the identifier (parametricity in the entry type E)."""
import dataclasses, itertools
import vlib
from vlib import show, parse2, oracle, guarded
from harness.c02 import enc_rsel

TRUSTED = [vlib.KERNEL_TB, vlib.AXIOMS_TB, vlib.EXTRACT_TB, "numpy first-axis indexing and concatenate on 1-D / 2-D arrays (Lib/NumpySem.v sel_rows, np_item)",
           "this harness: identifier <-> entry mapping, dataclass generation with npdataclass at run time"]
ASSUME = ["fields are numpy arrays (1-D int, 1-D float, 2-D int); equality and astype are compared against the same operation on the identifier table"]
RULE = ("classes with 1..4 fields (int / float / 2-D int in every combination for <= 3 fields), common length 0..5, every selector of the row grammar "
        "(ints -n-1..n, slices over bounds x steps, int lists with repeats and negatives, masks), iteration, concatenation of 1..3 objects, equality with "
        "one changed cell / changed length, astype to every narrower class, mismatching field lengths; VarLenArray lists with widths 1..4; "
        "non-trivial = at least two fields and two entries; distinct = distinct protocol line + field kinds")
KINDS = ["i", "f", "m"]


def run(R, tier, rng):
    import numpy as np
    from npstructures.npdataclasses import npdataclass, VarLenArray
    classes = {}
    def cls_for(kinds):
        if kinds not in classes:
            ns = {"__annotations__": {f"f{j}": (int if k == "i" else float if k == "f" else np.ndarray) for j, k in enumerate(kinds)}}
            classes[kinds] = npdataclass(type("DC_" + "".join(kinds), (), ns))
        return classes[kinds]
    def real(kind, ids):
        if kind == "i": return np.array(ids, dtype=int)
        if kind == "f": return np.array([x + 0.5 for x in ids], dtype=float)
        return np.array([[x, -x, 7] for x in ids], dtype=int).reshape(len(ids), 3)
    def ident(kind, arr):
        arr = np.asarray(arr)
        if kind == "i": return [int(x) for x in arr.ravel()] if arr.ndim else int(arr)
        if kind == "f": return [int(x - 0.5) for x in arr.ravel()] if arr.ndim else int(arr - 0.5)
        if arr.ndim == 1:
            assert arr[1] == -arr[0] and arr[2] == 7; return int(arr[0])
        assert all(r[1] == -r[0] and r[2] == 7 for r in arr); return [int(r[0]) for r in arr]
    def fields_of(kinds, obj): return [ident(k, getattr(obj, f"f{j}")) for j, k in enumerate(kinds)]
    cases = []
    def add(line, impl, kind, nt, py, post=None): cases.append((line, impl, kind, nt, py, post))
    kindsets = [ks for n in (1, 2, 3) for ks in itertools.product(KINDS, repeat=n)] + [("i", "f", "m", "i")]
    for kinds in kindsets:
        C = cls_for(kinds); nf = len(kinds)
        for n in range(0, 6 if tier == "thorough" else 5):
            ids = [[100 * f + i for i in range(n)] for f in range(nf)]
            mk = lambda ids=ids: C(*[real(k, col) for k, col in zip(kinds, ids)])
            nt = nf >= 2 and n >= 2
            tag = " @" + "".join(kinds)
            add("dc_new " + show(ids), guarded(lambda: len(mk())), "construct", nt, f"len({C.__name__}(<{nf} fields of length {n}>))")
            if nf >= 2:
                bad = [col if f else col + [999] for f, col in enumerate(ids)]
                add("dc_new " + show(bad), guarded(lambda: len(C(*[real(k, col) for k, col in zip(kinds, bad)]))), "construct-mismatch", nt, "fields of different lengths")
            # selectors
            B = [None, -n - 1, -1, 0, 1, n + 1]
            sels = [slice(a, b, s) for a in B for b in B for s in (None, 1, 2, -1, -2)] if (tier == "thorough" or kinds in (("i", "f"), ("m",), ("i", "f", "m", "i"))) else \
                   [slice(a, b, s) for a in B for b in B for s in (None, -1, 2) if rng.random() < .3]
            sels += [[i] for i in range(-n, n)] + [[rng.randrange(-n, n) for _ in range(rng.randint(2, 4))] for _ in range(4 if n else 0)] + [[n], [-n - 1]]
            sels += [list(m) for m in itertools.product([True, False], repeat=n)][:12] if n else []
            for s in sels:
                def sel(s=s):
                    idx = np.array(s) if isinstance(s, list) else s
                    if isinstance(s, list) and not s: idx = np.array([], dtype=int)
                    return fields_of(kinds, mk()[idx])
                add("dc_select " + show(ids) + " " + show(enc_rsel(s)) + tag, guarded(sel), "select/" + type(s).__name__, nt, f"obj[{s!r}] on {nf} fields x {n} entries")
                if isinstance(s, list) and s:       # the same selector as a plain Python list (numpy treats a list of bools as a mask)
                    add("dc_select " + show(ids) + " " + show(enc_rsel(s)) + tag + " rawlist", guarded(lambda s=s: fields_of(kinds, mk()[s])), "select/rawlist", nt, f"obj[{s!r}] (python list) on {nf} fields x {n} entries")
            for i in range(-n - 1, n + 1):
                add("dc_item " + show(ids) + " " + str(i) + tag, guarded(lambda i=i: fields_of(kinds, mk()[i])), "item", nt, f"obj[{i}]")
            # iteration: entry i consists of the i-th element of every field
            add("dc_iter " + show(ids) + tag, guarded(lambda: [fields_of(kinds, e) for e in mk()]), "iter", nt, "list(iter(obj))")
            # the entries kept in a list first and read afterwards (every entry is its own object), and read in reverse order
            add("dc_iter " + show(ids) + tag + " retained", guarded(lambda: [fields_of(kinds, e) for e in list(mk())]), "iter/retained", nt, "entries = list(obj); then every entry is read")
            add("dc_iter " + show(ids) + tag + " retained-reversed", guarded(lambda: [fields_of(kinds, e) for e in list(mk())[::-1]][::-1]), "iter/retained", nt, "entries = list(obj); read from the last to the first")
            # concatenation
            for parts in ([n], [n, 0], [1, n], [n, 2, 1]):
                objs_ids = []
                base = 0
                for pn in parts:
                    objs_ids.append([[100 * f + base + i for i in range(pn)] for f in range(nf)]); base += pn
                def cat(objs_ids=objs_ids):
                    return fields_of(kinds, np.concatenate([C(*[real(k, col) for k, col in zip(kinds, o)]) for o in objs_ids]))
                add("dc_concat " + show(objs_ids) + tag, guarded(cat), "concatenate", nt, f"np.concatenate of {len(parts)} objects with lengths {parts}")
            # equality: same table / one changed cell / different length  (expected value computed on the identifier table)
            for variant in ("same", "cell", "len"):
                ids2 = [list(c) for c in ids]
                if variant == "cell":
                    if not n: continue
                    ids2[nf - 1][n // 2] += 1
                if variant == "len": ids2 = [c + [5] for c in ids2]
                expect = int(ids2 == ids)
                def eq(ids2=ids2): return int(bool(mk() == C(*[real(k, col) for k, col in zip(kinds, ids2)])))
                add("dc_eq " + show(ids) + " " + show(ids2) + tag, guarded(eq), "eq", nt, f"obj == obj' ({variant})")
            # equality of a 2-D field with a field of another WIDTH (one column / repeated columns broadcast to equal cells) or with a 1-D field: never equal
            if "m" in kinds and n:
                jm = kinds.index("m")
                for wname, widen in (("one-column", lambda col: np.array([[x] for x in col], dtype=int)), ("six-columns", lambda col: np.array([[x, -x, 7, x, -x, 7] for x in col], dtype=int)),
                                     ("1-D", lambda col: np.array(col, dtype=int))):
                    def eqw(widen=widen):
                        a = mk(); cols = [real(k, col) for k, col in zip(kinds, ids)]
                        cols[jm] = widen(ids[jm])
                        return int(bool(a == C(*cols)))      # (an exception is a deviation: the comparison of two tables is never refused)
                    add("dc_eq " + show(ids) + " " + show([c + [1] for c in ids]) + tag + " width:" + wname, guarded(eqw), "eq/other-width", nt, f"obj == obj' whose 2-D field has another width ({wname})")
            # a 1-D field against the same values with a trailing axis of length 1 (equal cell by cell after broadcasting when n == 1): not the same table
            if n:
                def eqax():
                    cols = [real(k, col) for k, col in zip(kinds, ids)]; cols[0] = cols[0][..., None]
                    return int(bool(mk() == C(*cols)))
                add("dc_eq " + show(ids) + " " + show([c + [1] for c in ids]) + tag + " trailing-axis", guarded(eqax), "eq/other-shape", nt, "obj == obj' whose first field has shape (n, ..., 1)")
            # astype to a narrower class (field names preserved)
            if nf >= 2:
                for keep in ([0], [nf - 1], list(range(nf - 1)), list(range(nf))[::-1], [nf - 1, 0]):
                    ns = {"__annotations__": {f"f{j}": (int if kinds[j] == "i" else float if kinds[j] == "f" else np.ndarray) for j in keep}}
                    Narrow = npdataclass(type("Narrow", (), ns))
                    def ast(keep=keep, Narrow=Narrow):
                        o = mk().astype(Narrow)
                        return [ident(kinds[j], getattr(o, f"f{j}")) for j in keep]
                    expect = [ids[j] for j in keep]
                    add("dc_astype " + show(ids) + " " + show(keep) + tag, guarded(ast), "astype", nt, f"obj.astype(<fields {keep}>)")
    # VarLenArray concatenation: right-aligned, zero padded on the left
    for _ in range(400 if tier == "thorough" else 120):
        blocks = []
        for b in range(rng.randint(1, 4)):
            w = rng.randint(1, 4); r = rng.randint(0, 3)
            blocks.append([[rng.randint(1, 9) for _ in range(w)] for _ in range(r)] or None)
        blocks = [b for b in blocks if b]
        if not blocks: continue
        def vl(blocks=blocks):
            return np.concatenate([VarLenArray(np.array(b, dtype=int)) for b in blocks]).array.tolist()
        add("varlen " + show(blocks), guarded(vl), "varlen", len(blocks) >= 2, f"np.concatenate([VarLenArray(b) for b in {blocks}])", post="single")
        # the same blocks in dtypes of different widths (values must not be cast to the first block's dtype), and with a block of width 0
        big = [[[v + 300 for v in r] for r in b] if i % 2 else b for i, b in enumerate(blocks)]
        dts = ["int8" if i % 2 == 0 else "int64" for i in range(len(big))]
        def vl2(big=big, dts=dts):
            return np.concatenate([VarLenArray(np.array(b, dtype=dt)) for b, dt in zip(big, dts)]).array.tolist()
        add("varlen " + show(big) + " @mixed-dtypes", guarded(vl2), "varlen/mixed-dtypes", len(big) >= 2, f"np.concatenate([VarLenArray(np.array(b, dtype=dt)) for b, dt in zip({big}, {dts})])", post="single")
        # 64-bit integers that no double can hold (a float scratch matrix would round them); dtype of the result
        huge = [[[v + 2 ** 53 + (1 if (i + j) % 2 else 2 ** 9) for j, v in enumerate(r)] for r in b] for i, b in enumerate(blocks)]
        def vl3(huge=huge):
            r = np.concatenate([VarLenArray(np.array(b, dtype=np.int64)) for b in huge]).array
            return [[int(x) for x in row] for row in r.tolist()] if r.dtype == np.int64 else ["dtype", str(r.dtype)]
        add("varlen " + show(huge) + " @huge", guarded(vl3), "varlen/huge-int64", len(huge) >= 2, f"np.concatenate([VarLenArray(np.array(b, dtype=np.int64)) for b in {huge}])", post="single")
        w0 = rng.randint(1, 6)
        def vl4(blocks=blocks, w0=w0):
            arrs = [VarLenArray(np.array(b, dtype=int)) for b in blocks]
            arrs.insert(len(arrs) // 2, VarLenArray(np.zeros((0, w0), dtype=int)))
            return np.concatenate(arrs).array.tolist()
        zb = blocks[:len(blocks) // 2] + [[[0] * w0]] + blocks[len(blocks) // 2:]        # the model sees a one-row block of that width, dropped again below
        add("varlen " + show(zb) + " @zero-row-block", guarded(vl4), "varlen/zero-row-block", True, f"np.concatenate([... {blocks} with a (0,{w0}) block in the middle])", post=("drop-row", sum(len(b) for b in blocks[:len(blocks) // 2])))
        if len(blocks) >= 2:
            def vl3(blocks=blocks):
                return np.concatenate([VarLenArray(np.array(b, dtype=int)) for b in blocks] + [VarLenArray(np.zeros((2, 0), dtype=int))]).array.tolist()
            add("varlen " + show(blocks + [[[], []]]) + " @width0", guarded(vl3), "varlen/width0", True, f"np.concatenate([... {blocks}, VarLenArray(np.zeros((2, 0)))])", post="single")
    out = oracle([c[0].split(" @")[0] for c in cases])
    for (line, impl, kind, nt, py, post), o in zip(cases, out):
        if isinstance(post, tuple) and post[0] == "drop-row":
            m = s = (vlib.parse(o) if not o.startswith("ERR") else "oracle-error " + o[:80])
            if isinstance(m, list): m = s = m[:post[1]] + m[post[1] + 1:]
        elif post == "single":
            m = s = (vlib.parse(o) if not o.startswith("ERR") else "oracle-error " + o[:80])
        else:
            m, s = parse2(o)
            if post: m, s = post(m), post(s)
        R.record(line, impl, m, s, nt, kind, py=py)
