From Coq Require Import ZifyBool.
From NPS Require Import ListAux PySlice NumpySem Scatter BuildIdx SliceAP XorBroadcast XorProof Denote RLE RLEProof RLEOps CanonProof RLEIndex BinaryProof StepProof ReverseProof StepNeg SubRange StartEnd.
Open Scope Z_scope.
Ltac Zify.zify_post_hook ::= Z.to_euclidean_division_equations.

(* C15: rla[a:b:c] (RunLengthArray._get_slice with repair F7) decodes to dense[a:b:c], for every slice *)
Section GS.
Variable A : Type.
Variable d : A.
Variable eqb : A -> A -> bool.
Hypothesis eqb_eq : forall x y, eqb x y = true -> x = y.
Notation decode := (RLE.decode A).

(* ---- boundary lists and run lengths ---- *)
Lemma bcast_zlen (vs : list A) ls : canon A ls vs -> zlen (spec_broadcast A vs ls) = zsum ls.
Proof.
  intros [Hl Hlen]. revert vs Hlen. induction Hl as [|l ls Hl1 _ IH]; intros [|v vs] Hlen; try discriminate; [reflexivity|].
  unfold spec_broadcast in *. cbn [map2 concat zsum]. unfold zlen in *. rewrite app_length, List.repeat_length, Nat2Z.inj_add, IH by (cbn in Hlen; lia). lia.
Qed.
Lemma decode_evs ls (vs : list A) : decode (evs ls, vs) = spec_broadcast A vs ls.
Proof. unfold RLE.decode. cbn [fst snd]. now rewrite diffs_evs. Qed.

Lemma si_evs_gen : forall ls a, Forall (fun l => 1 <= l) ls -> strictly_increasing (excl_from a ls ++ [a + zsum ls]).
Proof.
  induction ls as [|l ls IH]; intros a H; [exact I|]. inversion H as [|? ? Hl Hls]; subst.
  cbn [excl_from zsum app]. specialize (IH (a + l) Hls). replace (a + (l + zsum ls)) with (a + l + zsum ls) by lia.
  destruct ls as [|l' ls]; cbn [excl_from app zsum] in *; (split; [lia|exact IH]).
Qed.
Lemma evs_head ls : ls <> [] -> exists ev, evs ls = 0 :: ev /\ length ev = length ls.
Proof.
  intros Hne. destruct ls as [|l ls]; [congruence|]. unfold evs, excl_prefix. cbn [excl_from app].
  eexists; split; [reflexivity|]. rewrite app_length, excl_from_length. cbn. lia.
Qed.
Lemma evs_last ls : last (evs ls) 0 = zsum ls. Proof. unfold evs. apply last_last. Qed.

Lemma zsum_diffs : forall ev e0, zsum (diffs (e0 :: ev)) = last (e0 :: ev) 0 - e0.
Proof.
  induction ev as [|e1 ev IH]; intros e0; [cbn; lia|]. rewrite diffs_cons2. cbn [zsum]. rewrite IH.
  change (last (e0 :: e1 :: ev) 0) with (last (e1 :: ev) 0). lia.
Qed.
Lemma diffs_pos : forall ev e0, strictly_increasing (e0 :: ev) -> Forall (fun l => 1 <= l) (diffs (e0 :: ev)).
Proof.
  induction ev as [|e1 ev IH]; intros e0 H; [constructor|]. destruct H as [H1 H2]. rewrite diffs_cons2. constructor; [lia|now apply IH].
Qed.

(* a well-shaped result is (evs ls, vs) for positive run lengths ls *)
Lemma shape_runs (r : rla A) n : shape_ok A r n ->
  exists ls, fst r = evs ls /\ canon A ls (snd r) /\ zsum ls = n /\ ls <> [].
Proof.
  intros (Hhd & Hsi & Hlen & Hlast & Hne). destruct r as [ev vs]. cbn [fst snd] in *.
  destruct ev as [|e0 ev]; [discriminate|]. cbn [hd] in Hhd. subst e0.
  exists (diffs (0 :: ev)). repeat split.
  - unfold evs, excl_prefix. rewrite zsum_diffs, Hlast. replace (n - 0) with n by lia. rewrite <- Hlast. apply ev_from_diffs.
  - now apply diffs_pos.
  - rewrite diffs_length. cbn [length pred] in *. lia.
  - rewrite zsum_diffs. lia.
  - intros E. apply (f_equal (@length Z)) in E. rewrite diffs_length in E. cbn [length pred] in *. destruct vs; [congruence|cbn in *; lia].
Qed.

(* ---- slices of the dense list as maps over 0..c-1 ---- *)
Lemma nth_window (D : list A) a b p : 0 <= a -> a <= b -> b <= zlen D -> 0 <= p < b - a ->
  nth (Z.to_nat p) (zslice_l D a b) d = znth d D (a + p).
Proof.
  intros Ha Hab Hb Hp. rewrite (nth_zslice d) by (unfold zlen in *; lia). unfold znth. f_equal. lia.
Qed.

Section Main.
Variable ls : list Z.
Variable vs : list A.
Hypothesis Hc : canon A ls vs.
Hypothesis Hne : ls <> [].
Let n := zsum ls.
Let D := decode (evs ls, vs).

Lemma D_len : zlen D = n. Proof. unfold D. rewrite decode_evs. now apply bcast_zlen. Qed.
Lemma n_pos : 1 <= n.
Proof. unfold n. destruct Hc as [Hl _]. destruct ls as [|l ls']; [congruence|]. inversion Hl; subst. cbn [zsum].
  assert (0 <= zsum ls') by (apply zsum_nonneg; eapply Forall_impl; [|eassumption]; cbn; intros; lia). lia. Qed.
Lemma rl_len_evs : rl_len (evs ls, vs) = n.
Proof.
  destruct (evs_head ls Hne) as (ev & E & Hl). unfold rl_len. cbn [fst]. pose proof (evs_last ls) as HL. rewrite E in *. cbn [tl].
  destruct ev as [|e1 ev]; [destruct ls; [congruence|discriminate]|]. exact HL.
Qed.

(* the sub-range [s, e) of the run-length array *)
Lemma sub_range s e : 0 <= s -> s < e -> e <= n ->
  let sub := start_to_end A (evs ls, vs) s e in
  decode sub = zslice_l D s e /\ exists ls', fst sub = evs ls' /\ canon A ls' (snd sub) /\ zsum ls' = e - s /\ ls' <> [].
Proof.
  intros Hs Hse He sub. destruct (evs_head ls Hne) as (ev & E & Hl).
  pose proof (si_evs_gen ls 0 (proj1 Hc)) as Hsi. change (excl_from 0 ls ++ [0 + zsum ls]) with (evs ls) in Hsi.
  pose proof (evs_last ls) as HL. unfold sub, D. rewrite E in *.
  assert (Hlen : length ev = length vs) by (destruct Hc as [_ H]; lia).
  split.
  - rewrite (start_to_end_decode A ev vs 0 s e Hlen Hsi) by (fold n in HL; lia). unfold zslice_l. now replace (s - 0) with s by lia.
  - apply shape_runs. apply (start_to_end_shape A ev vs 0 s e Hlen Hsi); fold n in HL; lia.
Qed.

Theorem get_slice_correct sl : step_of sl <> 0 ->
  exists r', get_slice A eqb (evs ls, vs) sl = Ok r' /\ decode r' = py_getslice d D sl.
Proof.
  intros Hstep. pose proof n_pos as Hn. pose proof D_len as HD.
  unfold get_slice. replace (step_of sl =? 0) with false by lia. rewrite rl_len_evs.
  unfold py_getslice, py_positions. rewrite HD.
  set (k := step_of sl) in *. set (s0 := py_start n sl). set (e0 := py_stop n sl).
  destruct (k <? 0) eqn:Eneg.
  - (* negative step *)
    assert (Hs0 : -1 <= s0 <= n - 1).
    { unfold s0, py_start, adj. fold k. rewrite Eneg. destruct (sl_start sl) as [v|]; [|lia].
      destruct (v <? 0) eqn:?; [destruct (v + n <? 0) eqn:?; lia|destruct (v >=? n) eqn:?; lia]. }
    assert (He0 : -1 <= e0 <= n - 1).
    { unfold e0, py_stop, adj. fold k. rewrite Eneg. destruct (sl_stop sl) as [v|]; [|lia].
      destruct (v <? 0) eqn:?; [destruct (v + n <? 0) eqn:?; lia|destruct (v >=? n) eqn:?; lia]. }
    unfold py_count. fold k s0 e0. rewrite Eneg.
    destruct (e0 + 1 >=? s0 + 1) eqn:Eemp.
    + eexists; split; [reflexivity|]. replace (e0 <? s0) with false by lia. reflexivity.
    + replace (e0 <? s0) with true by lia.
      destruct (sub_range (e0 + 1) (s0 + 1) ltac:(lia) ltac:(lia) ltac:(lia)) as (Hdec & ls' & Hev & Hc' & Hsum & Hne').
      set (sub := start_to_end A (evs ls, vs) (e0 + 1) (s0 + 1)) in *.
      replace (k =? 1) with false by lia. eexists; split; [reflexivity|].
      destruct sub as [ev' vs'] eqn:Esub. cbn [fst snd] in *. subst ev'.
      replace k with (- (- k)) at 1 by lia.
      rewrite (step_subset_neg A d eqb eqb_eq ls' vs' Hc' Hne' (- k) ltac:(lia)).
      rewrite <- (decode_evs ls' vs'), Hdec. rewrite Hsum.
      replace (cdiv (- k) (s0 + 1 - (e0 + 1))) with ((s0 - e0 - 1) / - k + 1)
        by (unfold cdiv; replace (s0 + 1 - (e0 + 1) + - k - 1) with ((s0 - e0 - 1) + 1 * (- k)) by lia; rewrite Z.div_add by lia; lia).
      rewrite (ap_reindex s0 _ k), map_map. apply map_ap_ext. intros q Hq.
      assert (Hqk : 0 <= q * - k < s0 - e0) by (split; [nia|]; nia).
      assert (Hlen : length (zslice_l D (e0 + 1) (s0 + 1)) = Z.to_nat (s0 - e0)).
      { rewrite zslice_length by lia. f_equal. lia. }
      rewrite rev_nth by (rewrite Hlen; lia). rewrite Hlen.
      replace (Z.to_nat (s0 - e0) - S (Z.to_nat (q * - k)))%nat with (Z.to_nat (s0 - e0 - 1 - q * - k)) by lia.
      rewrite nth_window by lia. f_equal. lia.
  - (* positive step *)
    assert (Hk : 1 <= k) by lia.
    assert (Hs0 : 0 <= s0 <= n).
    { unfold s0, py_start, adj. fold k. rewrite Eneg. destruct (sl_start sl) as [v|]; [|lia].
      destruct (v <? 0) eqn:?; [destruct (v + n <? 0) eqn:?; lia|destruct (v >=? n) eqn:?; lia]. }
    assert (He0 : 0 <= e0 <= n).
    { unfold e0, py_stop, adj. fold k. rewrite Eneg. destruct (sl_stop sl) as [v|]; [|lia].
      destruct (v <? 0) eqn:?; [destruct (v + n <? 0) eqn:?; lia|destruct (v >=? n) eqn:?; lia]. }
    unfold py_count. fold k s0 e0. rewrite Eneg.
    destruct (s0 >=? e0) eqn:Eemp.
    + eexists; split; [reflexivity|]. replace (s0 <? e0) with false by lia. reflexivity.
    + replace (s0 <? e0) with true by lia.
      destruct (sub_range s0 e0 ltac:(lia) ltac:(lia) ltac:(lia)) as (Hdec & ls' & Hev & Hc' & Hsum & Hne').
      set (sub := start_to_end A (evs ls, vs) s0 e0) in *.
      eexists; split; [reflexivity|].
      assert (Hcnt : (e0 - s0 - 1) / k + 1 = cdiv k (e0 - s0)).
      { unfold cdiv. replace (e0 - s0 + k - 1) with ((e0 - s0 - 1) + 1 * k) by lia. rewrite Z.div_add by lia. lia. }
      assert (Hgoal : decode (step_subset A eqb sub k) = map (znth d D) (ap s0 ((e0 - s0 - 1) / k + 1) k)).
      { destruct sub as [ev' vs'] eqn:Esub. cbn [fst snd] in *. subst ev'.
        destruct (step_subset_pos A d eqb eqb_eq k Hk ls' vs' Hc') as [Hpos _]. rewrite Hpos, Hsum, Hcnt.
        rewrite (ap_reindex s0 _ k), map_map. apply map_ap_ext. intros q Hq. unfold dense.
        rewrite <- (decode_evs ls' vs'), Hdec.
        assert (Hqk : 0 <= q * k < e0 - s0) by (unfold cdiv in Hq; split; nia).
        rewrite nth_window by lia. reflexivity. }
      destruct (k =? 1) eqn:E1; [|exact Hgoal].
      assert (k = 1) by lia. rewrite Hdec.
      replace ((e0 - s0 - 1) / k + 1) with (e0 - s0) by (subst k; rewrite H; rewrite Z.div_1_r; lia). rewrite H.
      pose proof (ap_unit_cells A d D s0 (e0 - s0) ltac:(lia) ltac:(lia) ltac:(lia)) as Hu. unfold row_cells in Hu. cbn [fst snd] in Hu.
      rewrite Hu. reflexivity.
Qed.
End Main.
End GS.
Print Assumptions get_slice_correct.
