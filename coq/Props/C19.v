(* C19 — property theorems only: each restates the full statement and is closed by the lemma proved in Proofs/. *)
From Coq Require Import ZArith List Bool.
From NPS Require Import ListAux PySlice NumpySem Scatter BuildIdx XorBroadcast View Index Assign Reduce Scan RaOps Heap Hash HashRun BitArr RLE RLEOps RLE2d DataClass RowsSpec AssignSpec MapSpec Denote IdxWidth Shape.
Import ListNotations.
Open Scope Z_scope.

Theorem C19_index_rows_width_independent :
  forall (rows : list row) (s : rowsel), Forall fits32 rows -> index_rows32 rows s = index_rows64 rows s.
Proof. exact index_rows_width_independent. Qed.
Print Assumptions C19_index_rows_width_independent.

Theorem C19_excl_prefix_in32 :
  forall ls : list Z,
       all_nonneg ls -> zsum ls < 2 ^ 31 -> Forall in32 (excl_prefix ls) /\ Forall in32 (cumsum ls).
Proof. exact excl_prefix_in32. Qed.
Print Assumptions C19_excl_prefix_in32.

Theorem C19_wrap32_id :
  forall x : Z, in32 x -> wrap32 x = x.
Proof. exact wrap32_id. Qed.
Print Assumptions C19_wrap32_id.

Theorem C19_shape_codes_width_independent :
  forall ls : list Z, all_nonneg ls -> zsum ls < 2 ^ 31 -> shape_codes_w wrap32 ls = shape_codes ls.
Proof. exact shape_codes_width_independent. Qed.
Print Assumptions C19_shape_codes_width_independent.

Theorem C19_geometry_additions_width_independent :
  forall ls : list Z,
       all_nonneg ls ->
       zsum ls < 2 ^ 31 ->
       Forall (fun sl : Z * Z => add_w wrap32 (fst sl) (snd sl) = fst sl + snd sl)
         (combine (excl_prefix ls) ls) /\
       (forall i j : Z,
        0 <= j ->
        In (i, j) (combine (excl_prefix ls) ls) -> forall c : Z, 0 <= c < j -> add_w wrap32 i c = i + c).
Proof. exact geometry_additions_width_independent. Qed.
Print Assumptions C19_geometry_additions_width_independent.
