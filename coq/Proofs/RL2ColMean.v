From Coq Require Import ZifyBool Permutation.
From NPS Require Import ListAux PySlice NumpySem Scatter BuildIdx SliceAP XorBroadcast XorProof RLE RLEProof RLEOps RaOps RLE2d CanonProof BinaryProof StepNeg SortProof RLEIndex ArgmaxProof RL2Proof RL2Col ColProof RL2ColSum RL2ColCounts RL2Mean.
Open Scope Z_scope.

(* C17: mean(axis=0) of the ragged variant = sum(axis=0) / col_counts(), through the binary path of the 1-D run-length array.
   The two operands are shown to be canonical run-length arrays over the same columns (strictly increasing boundaries from 0 to the
   longest row), so apply_binary_correct applies; with rl2_col_sum_correct and rl2_col_counts_correct the result decodes, column by
   column, to (sum of the rows that reach the column) / (number of rows that reach it). *)

Fixpoint sinc (l : list Z) : Prop := match l with x :: ((y :: _) as r) => x < y /\ sinc r | _ => True end.

(* a strictly increasing boundary list is the canonical form of its differences *)
Lemma sinc_normal : forall ev e, sinc (e :: ev) ->
  e :: ev = excl_from e (diffs (e :: ev)) ++ [e + zsum (diffs (e :: ev))] /\ Forall (fun l => 1 <= l) (diffs (e :: ev)) /\ length (diffs (e :: ev)) = length ev.
Proof.
  induction ev as [|e' ev IH]; intros e H.
  - cbn. repeat split; [f_equal; lia|constructor].
  - destruct H as [Hlt H]. rewrite diffs_cons2. destruct (IH e' H) as (I1 & I2 & I3). cbn [excl_from app zsum length].
    replace (e + (e' - e)) with e' by lia. replace (e + (e' - e + zsum (diffs (e' :: ev)))) with (e' + zsum (diffs (e' :: ev))) by lia.
    repeat split; [now rewrite <- I1|constructor; [lia|exact I2]|now rewrite I3].
Qed.
Lemma sinc_canon {X} (ev : list Z) (vs : list X) : sinc (0 :: ev) -> length vs = length ev ->
  (0 :: ev, vs) = (evs (diffs (0 :: ev)), vs) /\ canon X (diffs (0 :: ev)) vs /\ zsum (diffs (0 :: ev)) = last (0 :: ev) 0.
Proof.
  intros H Hl. destruct (sinc_normal ev 0 H) as (I1 & I2 & I3). unfold evs, excl_prefix.
  change (0 + zsum (diffs (0 :: ev))) with (zsum (diffs (0 :: ev))) in I1. repeat split; [now rewrite <- I1|exact I2|now rewrite I3|].
  rewrite I1 at 2. now rewrite last_last.
Qed.

(* remove_empty of weakly increasing boundaries is strictly increasing and keeps the last boundary *)
Lemma remove_empty_sinc {X} : forall ev (vs : list X), length ev = S (length vs) -> CanonProof.weakly_increasing ev ->
  sinc (fst (remove_empty X ev vs)) /\ last (fst (remove_empty X ev vs)) 0 = last ev 0.
Proof.
  induction ev as [|e ev IH]; intros vs Hlen Hw; [discriminate|].
  destruct ev as [|e' ev]; destruct vs as [|v vs]; cbn in Hlen; try discriminate; try lia.
  - cbn. auto.
  - rewrite remove_empty_cons2. injection Hlen as Hlen. destruct Hw as [Hle Hw]. destruct (IH vs ltac:(cbn; lia) Hw) as [I1 I2].
    destruct (remove_empty_decode X (e' :: ev) vs ltac:(cbn; lia)) as (_ & Hl2 & Hhd).
    destruct (remove_empty X (e' :: ev) vs) as [re rv] eqn:E. cbn [fst snd] in *.
    change (last (e :: e' :: ev) 0) with (last (e' :: ev) 0).
    destruct (e =? e') eqn:Ee; cbn [fst]; [split; assumption|].
    destruct re as [|r0 re]; [cbn in Hl2; lia|]. cbn [hd] in Hhd. subst r0. split; [split; [lia|exact I1]|exact I2].
Qed.

Lemma sorted_keys_hd_min {X} : forall (S : list (Z * X)) q, sorted_keys (q :: S) -> Forall (fun p => fst q <= fst p) S.
Proof.
  induction S as [|p S IH]; intros q H; [constructor|]. destruct H as [H1 H2]. constructor; [exact H1|].
  eapply Forall_impl; [|apply (IH p H2)]. cbn; intros; lia.
Qed.

(* the column sums are a canonical run-length array over [0, longest row) *)
Lemma col_sum_shape (rows : list (list Z * list Z)) : rows <> [] -> Forall (fun p => canon Z (fst p) (snd p)) rows ->
  let L := fold_left Z.max (map zlen (rl2_decode (of_runs rows))) 0 in
  exists ev vs, rl2_col_sum (of_runs rows) = (0 :: ev, vs) /\ sinc (0 :: ev) /\ length vs = length ev /\ last (0 :: ev) 0 = L.
Proof.
  intros Hne Hc L.
  assert (Hdense : rl2_decode (of_runs rows) = map (fun p => spec_broadcast Z (snd p) (fst p)) rows).
  { unfold rl2_decode, rl2_rows, of_runs. cbn [r_idx r_val r_len]. rewrite map2_combine, map_map.
    clear. induction rows as [|[ls vs] rows IH]; [reflexivity|]. cbn [map combine fst snd]. f_equal; [|exact IH].
    unfold row_rla. cbn [r_len]. unfold decode. cbn [fst snd]. now rewrite diffs_evs. }
  assert (Hlens : Forall (fun p : list Z * list Z => length (snd p) = length (fst p)) rows).
  { eapply Forall_impl; [|exact Hc]. intros p [_ H]. exact H. }
  unfold rl2_col_sum, of_runs. cbn [r_idx r_val r_len].
  set (positions := concat (map (fun p => evs (fst p)) rows)).
  assert (EL : fold_left Z.max positions 0 = L).
  { unfold L. rewrite Hdense, map_map. unfold positions. apply fold_max_positions; [exact Hc|lia]. }
  rewrite EL.
  match goal with |- context [combine positions ?d] => set (dd := d) end.
  assert (Hdd : length dd = length positions).
  { unfold dd. rewrite scatter_set_length.
    assert (Hv : length (concat (map (fun vs => vs ++ [0]) (map snd rows))) = length positions).
    { unfold positions. clear - Hlens. induction Hlens as [|p rows Hp _ IH]; [reflexivity|]. cbn [map concat]. rewrite !app_length, IH.
      unfold evs, excl_prefix. rewrite !app_length, excl_from_length, Hp. reflexivity. }
    destruct (concat (map (fun vs => vs ++ [0]) (map snd rows))) as [|z zs] eqn:Ez; [cbn in *; lia|].
    rewrite map2_length; [exact Hv|]. cbn [length]. now rewrite ColProof.removelast_cons_length'. }
  set (S := stable_sort (combine positions dd)).
  assert (Hperm : Permutation (combine positions dd) S) by apply sort_perm.
  assert (Hfst : Permutation positions (map fst S)).
  { rewrite <- Hperm. rewrite map_fst_combine' by (symmetry; exact Hdd). reflexivity. }
  assert (Hb : Forall (fun z => 0 <= z <= L) positions).
  { rewrite Forall_forall. intros z Hin. split.
    - unfold positions in Hin. apply in_concat in Hin. destruct Hin as (l & Hl & Hql). apply in_map_iff in Hl. destruct Hl as (p & <- & Hp).
      rewrite Forall_forall in Hc. destruct (Hc p Hp) as [Hl1 _].
      assert (Hnn : all_nonneg (fst p)) by (eapply Forall_impl; [|exact Hl1]; cbn; intros; lia).
      unfold evs in Hql. apply in_app_or in Hql. destruct Hql as [Hql|[<-|[]]]; [|now apply zsum_nonneg].
      pose proof (excl_from_bounds 0 (fst p) Hnn) as Hb. rewrite Forall_forall in Hb. specialize (Hb _ Hql). lia.
    - rewrite <- EL. pose proof (max_fold_ge positions 0) as [_ Hall]. rewrite Forall_forall in Hall. now apply Hall. }
  assert (Hzero : In 0 positions).
  { destruct rows as [|[ls vs] rows']; [congruence|]. unfold positions. cbn [map concat fst]. apply in_or_app. left.
    unfold evs, excl_prefix. destruct ls as [|l ls]; cbn [excl_from app zsum]; now left. }
  assert (HbS : Forall (fun z => 0 <= z <= L) (map fst S)) by (eapply Permutation_Forall; eassumption).
  assert (HzS : In 0 (map fst S)) by (eapply Permutation_in; eassumption).
  pose proof (sort_sorted (combine positions dd)) as Hsorted. fold S in Hsorted.
  destruct S as [|[p0 d0] S'] eqn:ES; [destruct HzS|].
  assert (Hp0 : p0 = 0).
  { cbn [map fst] in HzS, HbS. inversion HbS as [|? ? Hb0 _]; subst. destruct HzS as [Eq|Hin]; [exact Eq|].
    pose proof (sorted_keys_hd_min S' (p0, d0) Hsorted) as Hmin. apply in_map_iff in Hin. destruct Hin as (q & Eq & Hq).
    rewrite Forall_forall in Hmin. specialize (Hmin q Hq). cbn [fst] in Hmin. lia. }
  subst p0.
  set (ev0 := map fst ((0, d0) :: S') ++ [L]). set (vs0 := cumsum (map snd ((0, d0) :: S'))).
  assert (Hlen : length ev0 = Datatypes.S (length vs0)).
  { unfold ev0, vs0, cumsum. rewrite app_length, cumsum_from_length, !map_length. cbn. lia. }
  assert (Hwi : CanonProof.weakly_increasing ev0).
  { unfold ev0. apply wi_app_last; [apply sorted_keys_wi; exact Hsorted|]. eapply Forall_impl; [|exact HbS]. cbn; intros; lia. }
  destruct (remove_empty_sinc ev0 vs0 Hlen Hwi) as [Hs Hlast].
  destruct (remove_empty_decode Z ev0 vs0 Hlen) as (_ & Hl2 & Hhd).
  destruct (remove_empty Z ev0 vs0) as [re rv]. cbn [fst snd] in *.
  destruct re as [|r0 re]; [cbn in Hl2; lia|]. cbn [hd] in Hhd. unfold ev0 in Hhd. cbn [map fst app hd] in Hhd. subst r0.
  exists re, rv. repeat split; [exact Hs|cbn [length] in Hl2; lia|].
  rewrite Hlast. unfold ev0. now rewrite last_last.
Qed.

Lemma dedup_sinc : forall s lo, zsorted lo s -> sinc (map fst (dedup_sorted s)).
Proof.
  induction s as [|x r IH]; intros lo Hs; [exact I|]. destruct Hs as [_ Hs]. rewrite dedup_unfold.
  destruct r as [|y r']; [exact I|]. destruct (dedup_hd r' y) as (c & t & E). specialize (IH x Hs). rewrite E in *.
  destruct Hs as [Hxy _]. destruct (x =? y) eqn:Exy; cbn [map fst] in *; [exact IH|]. split; [lia|exact IH].
Qed.
Lemma sinc_le_last : forall l x, sinc l -> In x l -> x <= last l 0.
Proof.
  induction l as [|a l IH]; intros x Hs Hin; [destruct Hin|]. destruct l as [|b l]; [destruct Hin as [<-|[]]; cbn; lia|].
  destruct Hs as [Hab Hs]. change (last (a :: b :: l) 0) with (last (b :: l) 0). destruct Hin as [<-|Hin]; [|now apply IH].
  specialize (IH b Hs (or_introl eq_refl)). lia.
Qed.

(* the column counts are a canonical run-length array over the same columns (every row non-empty) *)
Lemma col_counts_shape (x : rl2) :
  let lens := map (fun ev => last ev 0) (r_idx x) in
  lens <> [] -> Forall (fun l => 1 <= l) lens ->
  exists ev vs, rl2_col_counts x = (0 :: ev, vs) /\ sinc (0 :: ev) /\ length vs = length ev /\ last (0 :: ev) 0 = fold_left Z.max lens 0.
Proof.
  intros lens Hne H1. unfold rl2_col_counts. fold lens.
  set (T := stable_sort (map (fun l => (l, tt)) lens)). set (s := map fst T).
  assert (Hperm : Permutation lens s).
  { unfold s, T. rewrite <- sort_perm. rewrite map_map. cbn [fst]. now rewrite map_id. }
  assert (Hs1 : Forall (fun l => 1 <= l) s) by (eapply Permutation_Forall; eassumption).
  assert (Hsorted : zsorted 1 s).
  { unfold s. apply sorted_keys_zsorted; [apply sort_sorted|]. destruct T as [|q T'] eqn:ET; [exact I|]. unfold s in Hs1. cbn [map] in Hs1. inversion Hs1 as [|? ? Hq _]. exact Hq. }
  set (U := dedup_sorted s).
  exists (map fst U), (removelast (map (fun c => zlen (r_idx x) - c) (0 :: cumsum (map snd U)))).
  assert (Hk1 : Forall (fun l => 1 <= l) (map fst U)).
  { rewrite Forall_forall. intros u Hu. unfold U in Hu. apply (proj1 (dedup_keys s u)) in Hu. rewrite Forall_forall in Hs1. exact (Hs1 u Hu). }
  assert (Hsk : sinc (0 :: map fst U)).
  { pose proof (dedup_sinc s 1 Hsorted) as Hd. fold U in Hd. destruct (map fst U) as [|k ks]; [exact I|]. split; [inversion Hk1; lia|exact Hd]. }
  repeat split; [exact Hsk| |].
  - cbn [map]. rewrite ColProof.removelast_cons_length'. unfold cumsum. now rewrite !map_length, cumsum_from_length, map_length.
  - assert (HUne : map fst U <> []).
    { destruct lens as [|l0 lens'] eqn:El; [congruence|]. intros E0. assert (Hin : In l0 s) by (eapply Permutation_in; [exact Hperm|now left]).
      apply (proj2 (dedup_keys s _)) in Hin. fold U in Hin. rewrite E0 in Hin. destruct Hin. }
    pose proof (max_fold_ge lens 0) as [Hge Hall]. pose proof (max_in lens 0) as Hin.
    assert (Hmaxin : In (fold_left Z.max lens 0) lens).
    { destruct Hin as [E0|Hin]; [|exact Hin]. destruct lens as [|l0 lens']; [congruence|]. inversion Hall; subst. inversion H1; subst. lia. }
    assert (Hup : fold_left Z.max lens 0 <= last (0 :: map fst U) 0).
    { apply sinc_le_last; [exact Hsk|]. right. unfold U. apply (proj2 (dedup_keys s _)). eapply Permutation_in; eassumption. }
    assert (Hlo : last (0 :: map fst U) 0 <= fold_left Z.max lens 0).
    { assert (Hl : In (last (0 :: map fst U) 0) (map fst U)).
      { destruct (map fst U) as [|k ks]; [congruence|]. change (last (0 :: k :: ks) 0) with (last (k :: ks) 0). apply last_In'. discriminate. }
      unfold U in Hl. apply (proj1 (dedup_keys s _)) in Hl. rewrite Forall_forall in Hall. apply Hall. eapply Permutation_in; [apply Permutation_sym; exact Hperm|exact Hl]. }
    lia.
Qed.

Section MeanThm.
Variable C : Type.
Variable ceqb : C -> C -> bool.
Hypothesis ceqb_eq : forall x y, ceqb x y = true -> x = y.
Variable dv : Z -> Z -> C.

Theorem rl2_col_mean_correct (rows : list (list Z * list Z)) : rows <> [] ->
  Forall (fun p => canon Z (fst p) (snd p) /\ fst p <> []) rows ->
  let dense := rl2_decode (of_runs rows) in
  exists r, rl2_col_mean C ceqb dv (of_runs rows) = Ok r /\
    decode C r = map (fun j => dv (zsum (map (fun r => nth (Z.to_nat j) r 0) dense)) (cnt (fun l => j <? l) (map zlen dense)))
                     (ap 0 (fold_left Z.max (map zlen dense) 0) 1) /\
    CanonProof.no_adj C ceqb (snd r).
Proof.
  intros Hne Hc dense.
  assert (Hc1 : Forall (fun p => canon Z (fst p) (snd p)) rows) by (eapply Forall_impl; [|exact Hc]; cbn; intros p [H _]; exact H).
  (* the row lengths, as the code reads them (last boundary of every row) and as the dense rows have them *)
  assert (Elens : map (fun ev => last ev 0) (r_idx (of_runs rows)) = map zlen dense).
  { unfold dense, rl2_decode, rl2_rows, of_runs. cbn [r_idx r_val r_len]. rewrite map2_combine, !map_map.
    clear - Hc1. induction Hc1 as [|[ls vs] rows Hp _ IH]; [reflexivity|]. cbn [map combine fst snd] in *. f_equal; [|exact IH].
    unfold row_rla. cbn [r_len]. unfold decode. cbn [fst snd]. rewrite diffs_evs, dense_len by exact Hp. unfold evs. now rewrite last_last. }
  assert (Hl1 : Forall (fun l => 1 <= l) (map zlen dense)).
  { rewrite <- Elens. unfold of_runs. cbn [r_idx]. rewrite map_map. apply Forall_map. eapply Forall_impl; [|exact Hc].
    intros [ls vs] [[Hge _] Hnn]. cbn [fst snd] in *. unfold evs. rewrite last_last. destruct ls as [|l ls]; [congruence|].
    inversion Hge as [|? ? Hl Hls]; subst. cbn [zsum]. assert (0 <= zsum ls) by (apply zsum_nonneg; eapply Forall_impl; [|exact Hls]; cbn; intros; lia). lia. }
  assert (Hdne : map zlen dense <> []).
  { rewrite <- Elens. unfold of_runs. cbn [r_idx]. destruct rows; [congruence|discriminate]. }
  destruct (col_sum_shape rows Hne Hc1) as (evS & vS & ES & HsS & HlS & HLS). fold dense in HLS.
  pose proof (col_counts_shape (of_runs rows)) as HK. cbv zeta in HK. rewrite Elens in HK.
  destruct (HK Hdne Hl1) as (evK & vK & EK & HsK & HlK & HLK). clear HK.
  destruct (sinc_canon evS vS HsS HlS) as (NS & CS & ZS). destruct (sinc_canon evK vK HsK HlK) as (NK & CK & ZK).
  pose proof (rl2_col_sum_correct rows Hne Hc1) as DS. cbv zeta in DS. fold dense in DS.
  pose proof (rl2_col_counts_correct (of_runs rows)) as DK. cbv zeta in DK. rewrite Elens in DK.
  specialize (DK Hdne ltac:(eapply Forall_impl; [|exact Hl1]; cbn; intros; lia)).
  set (L := fold_left Z.max (map zlen dense) 0) in *.
  assert (HL1 : 1 <= L).
  { pose proof (max_fold_ge (map zlen dense) 0) as [_ Hall]. fold L in Hall. destruct (map zlen dense) as [|l0 r]; [congruence|].
    inversion Hall; subst. inversion Hl1; subst. lia. }
  assert (HneS : diffs (0 :: evS) <> []).
  { intros E0. rewrite E0 in ZS. cbn [zsum] in ZS. lia. }
  assert (HneK : diffs (0 :: evK) <> []).
  { intros E0. rewrite E0 in ZK. cbn [zsum] in ZK. lia. }
  destruct (apply_binary_correct Z Z C 0 0 ceqb ceqb_eq dv (diffs (0 :: evS)) (diffs (0 :: evK)) vS vK CS CK ltac:(lia) HneS HneK) as (r & Er & Dr & Nr).
  exists r. unfold rl2_col_mean. rewrite ES, EK, NS, NK. split; [exact Er|]. split; [|exact Nr].
  rewrite Dr.
  assert (E1 : spec_broadcast Z vS (diffs (0 :: evS)) = decode Z (rl2_col_sum (of_runs rows))) by (rewrite ES; reflexivity).
  assert (E2 : spec_broadcast Z vK (diffs (0 :: evK)) = decode Z (rl2_col_counts (of_runs rows))) by (rewrite EK; reflexivity).
  rewrite E1, E2, DS, DK. apply BinaryProof.map2_maps.
Qed.
End MeanThm.
Print Assumptions rl2_col_mean_correct.

(* not vacuous: three rows of different lengths, Q-valued division replaced by the pair (sum, count) *)
Example col_mean_example :
  let rows := [([2; 1], [5; 7]); ([1], [4]); ([1; 1; 2], [1; 2; 3])] in
  rl2_col_mean (Z * Z) (fun a b => (fst a =? fst b) && (snd a =? snd b)) pair (of_runs rows)
  = Ok ([0; 1; 2; 3; 4], [(10, 3); (7, 2); (10, 2); (3, 1)]).
Proof. vm_compute. reflexivity. Qed.
