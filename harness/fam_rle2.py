"""1-D RunLengthArray across dtypes (C14 C15 C16): the implementation against numpy on the dense array (the property's right-hand side),
plus the canonical-form clauses of C14 on every RunLengthArray the library returns."""
import itertools, math
from vlib import guarded
from harness.fam_ra2 import Ctx
from harness import fam_ra2


def key(x):
    """element key for run-length arrays: numpy equality is the property's notion of "equal element by element" (0.0 == -0.0; NaN stays NaN)"""
    k = fam_ra2.key(x)
    return "0x0.0p+0" if k == "-0x0.0p+0" else k


def kl(a):
    import numpy as np
    if isinstance(a, np.ndarray): a = a.tolist()
    if isinstance(a, (list, tuple)): return [kl(x) for x in a]
    return key(a)


def num(x, like):
    """a reduction result compared at the precision of numpy's own result type (1.0 == 1; a float64 mean of float32 data is rounded to float32)"""
    import numpy as np
    like = np.asarray(like)
    with np.errstate(all="ignore"):
        return key(np.asarray(x).astype(like.dtype).item()) if np.asarray(x).shape == () else kl(np.asarray(x).astype(like.dtype))

DT = ["bool", "int8", "int64", "uint8", "uint64", "float32", "float64"]
ALPHA = {
    "bool": [True, False],
    "int8": [-128, 127, 0, 5],
    "int64": [2 ** 53, 2 ** 53 + 1, -2 ** 63, 2 ** 63 - 1, 0, 7],
    "uint8": [0, 255, 7],
    "uint64": [2 ** 63, 2 ** 63 + 1, 2 ** 64 - 1, 0, 3],
    "float32": [0.0, -0.0, 1.5, float("nan"), float("inf"), -2.25],
    "float64": [0.0, -0.0, 1.5, float("nan"), 2.0 ** 53, 2.0 ** 53 + 2, -1e300],
}
SMALL = {"bool": [True, False], "int8": [3, -1, 0, 2], "int64": [3, -1, 0, 2 ** 40], "uint8": [3, 1, 0, 200], "uint64": [3, 1, 0, 2 ** 40, 2 ** 60 + 1],
         "float32": [1.5, -2.25, 0.0, 4.0], "float64": [1.5, -2.25, 0.0, 2.0 ** 30]}


def SMALLV(dt, i):
    import numpy as np
    v = ALPHA[dt][i % len(ALPHA[dt])]
    return float(v) if dt.startswith("float") else int(v)


def arrays(tier, rng, table, maxn_exh=4):
    """(dtype, list) pairs: every array of length 1..maxn over a 2-3 letter sub-alphabet per dtype, plus long-run random arrays"""
    out = []
    for dt in DT:
        al = table[dt]
        for n in range(1, (maxn_exh + 1 if tier != "thorough" else maxn_exh + 2)):
            letters = al[:3] if len(al) >= 3 else al
            for a in itertools.product(letters, repeat=n): out.append((dt, list(a)))
            if len(al) > 3:
                for _ in range(6): out.append((dt, [rng.choice(al) for _ in range(n)]))
        for j in range(12 if tier != "thorough" else 60):
            n = rng.randint(5, 200 if tier == "thorough" else 40) if j else rng.randint(130, 220)
            a = [];
            while len(a) < n: a += [rng.choice(al)] * rng.randint(1, 9)
            out.append((dt, a[:n]))
        # lengths beyond any plausible shortcut threshold / block size (many runs, and exactly a power of two)
        for n, mx in ((1500, 9), (4096, 3)) if dt in ("int64", "uint8", "float64", "bool") else ():
            a = []
            while len(a) < n: a += [rng.choice(al)] * rng.randint(1, mx)
            out.append((dt, a[:n]))
    return out


def eqv(x, y):
    """numpy == on two python scalars of one dtype (NaN != NaN, 0.0 == -0.0)"""
    return x == y


def canon_check(r, level, n):
    """the canonical-form clauses of C14 on a RunLengthArray: boundaries start at 0, increase strictly, end at the length; one value per run;
    level 2: no two adjacent runs with equal values (numpy ==)"""
    import numpy as np
    st, en, va = np.asarray(r.starts).tolist(), np.asarray(r.ends).tolist(), np.asarray(r.values)
    ev = st + en[-1:]
    if n == 0: return "ok" if len(va) == 0 else f"empty array with {len(va)} runs"
    if not ev or ev[0] != 0: return f"first boundary {ev[:1]} != 0"
    if any(b <= a for a, b in zip(ev, ev[1:])): return f"boundaries not strictly increasing {ev}"
    if ev[-1] != n: return f"last boundary {ev[-1]} != length {n}"
    if len(va) != len(ev) - 1: return f"{len(va)} values for {len(ev) - 1} runs"
    if st != ev[:-1] or en != ev[1:]: return "starts/ends inconsistent"
    if level >= 2 and bool(np.any(va[1:] == va[:-1])): return f"adjacent runs with equal values {kl(va)}"
    return "ok"


def dense_obs(a):
    import numpy as np
    a = np.asarray(a); return {"array": kl(a), "dtype": str(a.dtype)}


def rl_obs(r, canon_level, with_canon=True):
    """dense content + dtype + len/size/shape (+ canonical-form verdict)"""
    import numpy as np
    d = r.to_array()
    o = {"array": kl(d), "dtype": str(r.dtype), "len": [int(len(r)), int(r.size), [int(x) for x in r.shape]] if len(d) else [int(len(r))]}
    if with_canon: o["canonical"] = canon_check(r, canon_level, len(d))
    return o


def spec_rl(dense, canon=True):
    import numpy as np
    dense = np.asarray(dense)
    o = {"array": kl(dense), "dtype": str(dense.dtype), "len": [len(dense), int(dense.size), list(dense.shape)] if len(dense) else [0]}
    if canon: o["canonical"] = "ok"
    return o


def run_c14(R, tier, rng):
    import numpy as np
    from npstructures import RunLengthArray
    C = Ctx(R, "rle")
    for dt, a in arrays(tier, rng, ALPHA):
        A = np.array(a, dtype=dt); nt = len(a) >= 2 and len(set(map(str, a))) >= 2
        tag = f"{dt} {a!r}" if len(a) <= 12 else f"{dt} n={len(a)} {a[:6]!r}.."
        def enc():
            r = RunLengthArray.from_array(A)
            o = rl_obs(r, 2); o["asarray"] = kl(np.asarray(r)); o["asarray_dtype"] = str(np.asarray(r).dtype)
            o["values_in_source"] = True
            return o
        def spec():
            o = spec_rl(A); o["asarray"] = kl(A); o["asarray_dtype"] = dt; o["values_in_source"] = True; return o
        C.cmp("roundtrip " + tag, "roundtrip/" + dt, nt, enc, spec, py=f"RunLengthArray.from_array(np.array({a!r}, dtype='{dt}'))  -> to_array / np.asarray / len,size,shape,dtype / starts,ends,values canonical")
        n = len(a)
        # np.asarray with an explicit dtype, then without, on ONE object (a cached conversion must not leak the first dtype)
        def conv_twice():
            r = RunLengthArray.from_array(A)
            first = np.asarray(r, dtype=float if dt != "float64" else np.float32); second = np.asarray(r); third = r.to_array()
            return [str(first.dtype), kl(second), str(second.dtype), kl(third), str(third.dtype)]
        C.cmp("asarray(dtype) then asarray " + tag, "asarray-twice", nt, conv_twice, lambda: ["float64" if dt != "float64" else "float32", kl(A), dt, kl(A), dt],
              py=f"r = RunLengthArray.from_array(np.array({a!r}, dtype='{dt}')); np.asarray(r, dtype=float); np.asarray(r)")
        # the converted array belongs to the caller: writing into it must not show in a later conversion of the same object
        def conv_write():
            r = RunLengthArray.from_array(A)
            x = np.asarray(r); x[...] = x[::-1].copy()
            if len(x): x[0] = x[-1]
            y = np.array(r); y[...] = y[::-1].copy()
            return [kl(np.asarray(r)), kl(r.to_array()), kl(np.asanyarray(r))]
        C.cmp("asarray, write into the result, asarray " + tag, "asarray-write-asarray", nt, conv_write, lambda: [kl(A), kl(A), kl(A)],
              py=f"r = RunLengthArray.from_array(np.array({a!r}, dtype='{dt}')); x = np.asarray(r); x[...] = x[::-1].copy(); x[0] = x[-1]; np.asarray(r)")
        # binary ufuncs between arrays DERIVED from one array (they share its boundaries): content and no equal neighbours
        if dt != "bool" and (n <= 5 or rng.random() < .3):
            t1, t2 = ALPHA[dt][0], ALPHA[dt][-1]
            def derived(kind):
                r = RunLengthArray.from_array(A)
                if kind == "and": return rl_obs((r >= t1) & (r <= t2), 2)
                if kind == "sub": return rl_obs(r - r, 2)
                if kind == "min": return rl_obs(np.minimum(r, r * 0 + t1), 2)
                if kind == "eq": return rl_obs(np.equal(r * 1, r), 2)
            with np.errstate(all="ignore"):
                specs = {"and": lambda: spec_rl((A >= t1) & (A <= t2)), "sub": lambda: spec_rl(A - A), "min": lambda: spec_rl(np.minimum(A, A * 0 + t1)), "eq": lambda: spec_rl(np.equal(A * 1, A))}
            for kind in ("and", "sub", "min", "eq"):
                C.cmp(f"binary-of-derived {kind} {tag}", "canonical/binary-of-derived-operands", nt, lambda: derived(kind), specs[kind],
                      py=f"r = RunLengthArray.from_array(np.array({a!r}, dtype='{dt}')); " + {"and": f"(r >= {t1!r}) & (r <= {t2!r})", "sub": "r - r", "min": f"np.minimum(r, r * 0 + {t1!r})", "eq": "np.equal(r * 1, r)"}[kind])
        if n <= 5 or rng.random() < .3:
            # slices of arrays whose neighbouring runs may be equal (scalar ufunc results, concatenations keep the operands' boundaries):
            # stepped slices (also step -1) promise no equal neighbours
            srcs = [("concat", lambda: np.concatenate([RunLengthArray.from_array(A), RunLengthArray.from_array(A[::-1].copy())]), np.concatenate([A, A[::-1]]))]
            if dt not in ("bool",): srcs.append(("floordiv", lambda: RunLengthArray.from_array(A) // 5 if not dt.startswith("float") else RunLengthArray.from_array(A) * 0, A // 5 if not dt.startswith("float") else A * 0))
            for sname, mksrc, dense in srcs:
                for sl in (slice(None, None, -1), slice(None, None, 2), slice(None, None, -2), slice(len(dense) - 1, 0, -1), slice(1, None, 3)):
                    C.cmp(f"slice-canonical/{sname} {tag} {sl}", "canonical/slice-of-noncanonical", nt, lambda: rl_obs(mksrc()[sl], 2), lambda: spec_rl(dense[sl]),
                          py=f"<{sname} of from_array({a!r}, {dt})>[{sl.start}:{sl.stop}:{sl.step}]  (content + no equal neighbours)")
            r0 = guarded(lambda: RunLengthArray.from_array(A))
            if r0 is None: continue
            # canonical form of every producer the property lists: slicing (Canon1), stepped slicing (Canon2), binary ufunc (Canon2), concatenation (Canon1)
            B = [None, 0, 1, -1, n, n + 2, -n - 2]
            for st, sp, se in itertools.product(B, B, [None, 1, 2, 3, -1, -2]):
                if tier != "thorough" and rng.random() < (.5 if n <= 3 else .9): continue
                dn = A[st:sp:se]
                C.cmp(f"slice-canonical {tag} [{st}:{sp}:{se}]", "canonical/slice", nt, lambda: rl_obs(RunLengthArray.from_array(A)[st:sp:se], 2 if se not in (None, 1) else 1),
                      lambda: spec_rl(dn), py=f"RunLengthArray.from_array(np.array({a!r}, dtype='{dt}'))[{st}:{sp}:{se}]  (content + canonical form)")
            b = [rng.choice(ALPHA[dt]) for _ in range(n)]
            Bv = np.array(b, dtype=dt)
            for ufn in ("maximum", "equal", "add") if dt != "bool" else ("logical_and", "equal", "logical_xor"):
                uf = getattr(np, ufn)
                C.cmp(f"binary-canonical {ufn} {tag} {b!r}", "canonical/binary", nt, lambda: rl_obs(uf(RunLengthArray.from_array(A), RunLengthArray.from_array(Bv)), 2),
                      lambda: spec_rl(uf(A, Bv)), py=f"np.{ufn}(RunLengthArray.from_array({a!r}), RunLengthArray.from_array({b!r}))  dtype {dt}")
            C.cmp(f"concat-canonical {tag} {b!r}", "canonical/concat", nt, lambda: rl_obs(np.concatenate([RunLengthArray.from_array(A), RunLengthArray.from_array(Bv)]), 1),
                  lambda: spec_rl(np.concatenate([A, Bv])))


def run_c15(R, tier, rng):
    import numpy as np
    from npstructures import RunLengthArray
    C = Ctx(R, "rleidx")
    for dt, a in arrays(tier, rng, ALPHA, maxn_exh=3):
        A = np.array(a, dtype=dt); n = len(a); nt = n >= 2 and len(set(map(str, a))) >= 2
        tag = f"{dt} {a!r}" if n <= 12 else f"{dt} n={n} {a[:6]!r}.."
        mk = lambda: RunLengthArray.from_array(A)
        if guarded(mk) is None: continue
        for i in sorted({0, n - 1, -1, -n, n // 2, -(n // 2) - 1} & set(range(-n, n))):
            C.cmp(f"int {tag} [{i}]", "int", nt, lambda: [key(mk()[i])], lambda: [key(A[i])], py=f"RunLengthArray.from_array(np.array({a!r}, dtype='{dt}'))[{i}]")
        # the same selectors wrapped in a tuple / with an Ellipsis (numpy spellings of the same index)
        i0 = n // 2
        C.cmp(f"tuple-int {tag} [({i0},)]", "int/tuple", nt, lambda: [key(mk()[(i0,)])], lambda: [key(A[(i0,)])], py=f"rla[({i0},)]  rla = from_array({a!r}, {dt})")
        C.cmp(f"ellipsis-int {tag} [..., {-1}]", "int/ellipsis", nt, lambda: [key(mk()[..., -1])], lambda: [key(A[-1])], py=f"rla[..., -1]  rla = from_array({a!r}, {dt})")
        # the Ellipsis AFTER the index (numpy accepts it on either side)
        C.cmp(f"int-ellipsis {tag} [{i0}, ...]", "int/ellipsis-after", nt, lambda: [key(mk()[i0, ...])], lambda: [key(A[i0])], py=f"rla[{i0}, ...]  rla = from_array({a!r}, {dt})")
        C.cmp(f"slice-ellipsis {tag} [1:4, ...]", "slice/ellipsis-after", nt, lambda: rl_obs(mk()[1:4, ...], 1, with_canon=False), lambda: spec_rl(A[1:4, ...], canon=False), py=f"rla[1:4, ...]  rla = from_array({a!r}, {dt})")
        C.cmp(f"list-ellipsis {tag} [[0, {n - 1}], ...]", "list/ellipsis-after", nt, lambda: dense_obs(mk()[[0, n - 1], ...]), lambda: dense_obs(A[[0, n - 1], ...]), py=f"rla[[0, {n - 1}], ...]  rla = from_array({a!r}, {dt})")
        C.cmp(f"ellipsis {tag} [...]", "ellipsis", nt, lambda: rl_obs(mk()[...], 1, with_canon=False), lambda: spec_rl(A[...], canon=False), py=f"rla[...]  rla = from_array({a!r}, {dt})")
        C.cmp(f"tuple-slice {tag} [(1::2,)]", "slice/tuple", nt, lambda: rl_obs(mk()[(slice(1, None, 2),)], 1, with_canon=False), lambda: spec_rl(A[(slice(1, None, 2),)], canon=False),
              py=f"rla[(slice(1, None, 2),)]  rla = from_array({a!r}, {dt})")
        if n > 127:       # narrow index dtypes on a long array
            idx8 = [-1, 3, -128, 127, n % 100]
            C.cmp(f"int8-array {tag} {idx8}", "int-array/int8", nt, lambda: dense_obs(mk()[np.array(idx8, dtype=np.int8)]), lambda: dense_obs(A[np.array(idx8, dtype=np.int8)]), py=f"rla[np.array({idx8}, dtype=np.int8)]  (length {n})")
        if n > 127:       # long index lists in arbitrary order, with repeats and negatives
            for m_ in (65, 100, 600):
                idx = [rng.randrange(-n, n) for _ in range(m_)]
                C.cmp(f"long-list {tag} {m_} indices", "list/long", nt, lambda: dense_obs(mk()[idx]), lambda: dense_obs(A[idx]), py=f"rla[{idx}]  (length {n})")
                rot = [(i + 37) % n for i in range(min(n, m_))]
                C.cmp(f"long-array {tag} rotated {len(rot)}", "int-array/long", nt, lambda: dense_obs(mk()[np.array(rot)]), lambda: dense_obs(A[np.array(rot)]), py=f"rla[np.array([(i + 37) % {n} for i in range({len(rot)})])]")
        for _ in range(3):
            idx = [rng.randrange(-n, n) for _ in range(rng.randint(1, 5))]
            C.cmp(f"list {tag} {idx}", "list", nt, lambda: dense_obs(mk()[idx]), lambda: dense_obs(A[idx]), py=f"rla[{idx}]  rla = from_array({a!r}, {dt})")
            C.cmp(f"array {tag} {idx}", "int-array", nt, lambda: dense_obs(mk()[np.array(idx)]), lambda: dense_obs(A[np.array(idx)]))
            uidx = [i % n for i in idx] + [n - 1, 0]           # unsigned index arrays, not sorted (differences of unsigned numbers wrap)
            for udt in ("uint8", "uint16", "uint32"):
                if n <= np.iinfo(udt).max:
                    C.cmp(f"array/{udt} {tag} {uidx}", "int-array/" + udt, nt, lambda: dense_obs(mk()[np.array(uidx, dtype=udt)]), lambda: dense_obs(A[np.array(uidx, dtype=udt)]),
                          py=f"rla[np.array({uidx}, dtype=np.{udt})]  rla = from_array({a!r}, {dt})")
        for _ in range(3):
            m = [rng.random() < .5 for _ in range(n)]
            C.cmp(f"mask {tag} {m}", "bool-mask", nt, lambda: dense_obs(mk()[np.array(m)]), lambda: dense_obs(A[np.array(m)]), py=f"rla[np.array({m})]")
            if any(m):
                def rlmask():
                    r = mk()[RunLengthArray.from_array(np.array(m))]
                    return dense_obs(np.asarray(r.to_array() if hasattr(r, "to_array") else r))
                C.cmp(f"rlmask {tag} {m}", "rl-mask", nt, rlmask, lambda: dense_obs(A[np.array(m)]), py=f"rla[RunLengthArray.from_array(np.array({m}))]")
        if dt != "bool":
            for thr in (SMALLV(dt, 0), SMALLV(dt, 1), SMALLV(dt, 2)):
                for cmpname in ("less", "greater_equal", "not_equal"):
                    cf = getattr(np, cmpname)
                    dm = cf(A, thr)
                    if not dm.any(): continue
                    def cmpmask():
                        r = mk(); m = cf(r, thr); out = r[m]
                        return dense_obs(np.asarray(out.to_array() if hasattr(out, "to_array") else out))
                    C.cmp(f"rlmask-from-comparison {tag} {cmpname} {thr!r}", "rl-mask/comparison", nt, cmpmask, lambda: dense_obs(A[dm]), py=f"r = from_array({a!r}, {dt}); r[np.{cmpname}(r, {thr!r})]")
        B = [None] + sorted({0, 1, 2, n - 1, n, n + 1, n + 3, -1, -2, -n, -n - 1, -n - 3})
        steps = [None, 1, 2, 3, 4, -1, -2, -3, -4]
        for st, sp, se in itertools.product(B, B, steps):
            if tier != "thorough" and rng.random() < (.6 if n <= 3 else .93): continue
            C.cmp(f"slice {tag} [{st}:{sp}:{se}]", "slice", nt, lambda: rl_obs(mk()[st:sp:se], 1, with_canon=False), lambda: spec_rl(A[st:sp:se], canon=False),
                  py=f"RunLengthArray.from_array(np.array({a!r}, dtype='{dt}'))[{st}:{sp}:{se}]")
        # windows: one (start, stop) pair per row; every third set also holds empty windows (start == stop, start > stop)
        for wi in range(3):
            k = rng.randint(1, 4)
            ss = [rng.randrange(0, n) for _ in range(k)]; ee = [rng.randint(s + 1, n) for s in ss]
            if wi == 2:
                ss += [n // 2, n, 0, min(n, 2)]; ee += [n // 2, n, 0, min(n, 2) - 1]
                if all(s >= e for s, e in zip(ss, ee)): ss.append(0); ee.append(n)      # (the dtype of a result without elements is not compared)
            if wi == 1 and n <= 250:      # the bound vectors as unsigned arrays, empty windows (start > stop) included (F39)
                us = ss + [n, min(n, 3)]; ue = ee + [0, 1]
                def uwin():
                    ra = mk()[np.array(us, dtype=np.uint8):np.array(ue, dtype=np.uint8)].to_array()
                    return {"rows": kl(ra.tolist())}
                C.cmp(f"windows/uint8 {tag} {us} {ue}", "windows/unsigned-bounds", nt, uwin, lambda: {"rows": [kl(A[s:e]) for s, e in zip(us, ue)]}, py=f"rla[np.array({us}, dtype=np.uint8):np.array({ue}, dtype=np.uint8)].to_array()")
            def win():
                r = mk()[np.array(ss):np.array(ee)]
                ra = r.to_array()
                return {"rows": kl(ra.tolist()), "dtype": str(ra.dtype)}
            C.cmp(f"windows {tag} {ss} {ee}", "windows", nt, win, lambda: {"rows": [kl(A[s:e]) for s, e in zip(ss, ee)], "dtype": dt}, py=f"rla[np.array({ss}):np.array({ee})].to_array()")


UF2 = ["add", "subtract", "multiply", "maximum", "minimum", "less", "greater_equal", "equal", "not_equal", "bitwise_and", "bitwise_or", "bitwise_xor",
       "logical_and", "logical_or", "floor_divide", "true_divide", "left_shift"]
UF1 = ["negative", "absolute", "invert", "logical_not", "square", "sign", "isnan"]


def run_c16(R, tier, rng):
    import numpy as np
    from npstructures import RunLengthArray
    C = Ctx(R, "rlearith")
    # zeros of both signs in different runs (a few runs, and more runs than any plausible threshold): ufuncs that look at the sign of zero
    for dt in ("float64", "float32"):
        for nruns in (7, 700):
            z = []
            for i in range(nruns): z += [[0.0, 1.5, -0.0, 2.0, -0.0, -2.25, 0.0][i % 7]] * (1 + i % 3)      # never a zero next to a zero of the other sign: the encoder joins equal neighbours
            Z = np.array(z, dtype=dt); tagz = f"{dt} signed zeros, {nruns} runs"
            zs = [("signbit(r)", lambda r: np.signbit(r)), ("copysign(3.0, r)", lambda r: np.copysign(3.0, r)), ("copysign(r, -1.0)", lambda r: np.copysign(r, -1.0)),
                  ("true_divide(1.0, r)", lambda r: np.true_divide(1.0, r)), ("arctan2(0.0, r)", lambda r: np.arctan2(0.0, r)), ("negative(r)", lambda r: np.negative(r)),
                  ("multiply(r, -1.0)", lambda r: np.multiply(r, -1.0))]
            for name, f in zs:
                def impl_z():
                    with np.errstate(all="ignore"): return rl_obs(f(RunLengthArray.from_array(Z)), 1, with_canon=False)
                def spec_z():
                    with np.errstate(all="ignore"): return spec_rl(f(Z), canon=False)
                C.cmp(f"signed-zero {name} {tagz}", "signed-zero/" + name.split("(")[0], True, impl_z, spec_z, py=f"r = from_array(<{nruns} runs cycling 0.0, 1.5, -0.0, 2.0, -0.0, -2.25, 0.0>, {dt}); np.{name}")
    arrs = arrays(tier, rng, SMALL, maxn_exh=4)
    bylen = {}
    for dt, a in arrs: bylen.setdefault(len(a), []).append((dt, a))
    enc = lambda x, dt: RunLengthArray.from_array(np.array(x, dtype=dt))
    for ci, (dt, a) in enumerate(arrs):
        A = np.array(a, dtype=dt); n = len(a); nt = n >= 2 and len(set(map(str, a))) >= 2
        tag = f"{dt} {a!r}" if n <= 12 else f"{dt} n={n} {a[:6]!r}.."
        if tier != "thorough" and n <= 4 and rng.random() < .5: continue
        # two run-length operands of equal length, unrelated boundaries, dtype pairs
        for _ in range(2):
            dt2, b = rng.choice(bylen[n])
            Bv = np.array(b, dtype=dt2)
            for ufn in rng.sample(UF2, 3):
                uf = getattr(np, ufn)
                if ufn in ("floor_divide", "true_divide"): Bq = np.where(Bv == 0, np.ones(1, dtype=dt2)[0], Bv)
                elif ufn == "left_shift": Bq = (np.abs(Bv.astype(float)) % 4).astype("int8") if dt2 != "bool" else Bv.astype("int8")
                else: Bq = Bv
                def impl():
                    x, y = RunLengthArray.from_array(A), RunLengthArray.from_array(Bq)
                    r = uf(x, y)
                    o = rl_obs(r, 2, with_canon=False); o["operands"] = [kl(x.to_array()), kl(y.to_array())]; return o
                def spec():
                    o = spec_rl(uf(A, Bq), canon=False); o["operands"] = [kl(A), kl(Bq)]; return o
                C.cmp(f"binary {ufn} {tag} | {dt2} {kl(Bq)!r}", "binary/" + ufn, nt, impl, spec, py=f"np.{ufn}(from_array({a!r}, {dt}), from_array({Bq.tolist()!r}, {Bq.dtype}))")
        # scalars on either side (python numbers, numpy numeric scalars)
        for ufn in rng.sample(UF2, 3):
            uf = getattr(np, ufn)
            s = SMALL[dt][(ci + 1) % len(SMALL[dt])]
            if ufn in ("floor_divide", "true_divide") and s in (0, False): s = SMALL[dt][0]
            if ufn == "left_shift": s = 2
            scal = [("py", (bool(s) if dt == "bool" else float(s) if dt.startswith("float") else int(s)))]
            scal.append(("np", np.dtype(dt).type(s) if ufn != "left_shift" else np.int8(2)))
            scal.append(("0d", np.array(s, dtype=dt) if ufn != "left_shift" else np.array(2, dtype=np.int8)))
            for sk, sv in scal:
                C.cmp(f"scalar-R {ufn} {tag} {sk}:{sv!r}", "scalar-R/" + ufn, nt, lambda: rl_obs(uf(RunLengthArray.from_array(A), sv), 1, with_canon=False),
                      lambda: spec_rl(uf(A, sv), canon=False), py=f"np.{ufn}(from_array({a!r}, {dt}), {sv!r})")
                if ufn not in ("floor_divide", "true_divide", "left_shift"):
                    C.cmp(f"scalar-L {ufn} {tag} {sk}:{sv!r}", "scalar-L/" + ufn, nt, lambda: rl_obs(uf(sv, RunLengthArray.from_array(A)), 1, with_canon=False),
                          lambda: spec_rl(uf(sv, A), canon=False), py=f"np.{ufn}({sv!r}, from_array({a!r}, {dt}))")
        for ufn in rng.sample(UF1, 2):
            uf = getattr(np, ufn)
            C.cmp(f"unary {ufn} {tag}", "unary/" + ufn, nt, lambda: rl_obs(uf(RunLengthArray.from_array(A)), 1, with_canon=False), lambda: spec_rl(uf(A), canon=False), py=f"np.{ufn}(from_array({a!r}, {dt}))")
        # reductions, also on arrays whose neighbouring runs hold equal values (results of scalar ufuncs and concatenation keep the boundaries)
        zero = np.zeros(1, dtype=dt)[0]
        variants = [("plain", lambda: RunLengthArray.from_array(A), A)]
        if dt != "bool":
            variants.append(("times0", lambda: RunLengthArray.from_array(A) * 0, A * 0))
            variants.append(("gt-max", lambda: RunLengthArray.from_array(A) > 1e30, A > 1e30))
        variants.append(("concat", lambda: np.concatenate([RunLengthArray.from_array(A), RunLengthArray.from_array(A)]), np.concatenate([A, A])))
        variants.append(("eq-self", lambda: np.equal(RunLengthArray.from_array(A), RunLengthArray.from_array(A)) if not dt.startswith("float") else RunLengthArray.from_array(A), np.equal(A, A) if not dt.startswith("float") else A))
        for vn, mkv, dense in variants:
            for fn in ("sum", "any", "all", "mean"):
                f = getattr(np, fn)
                C.cmp(f"np.{fn} {vn} {tag}", fn + "/" + vn, nt, lambda: num(f(mkv()), f(dense)), lambda: key(f(dense)), py=f"np.{fn}(<{vn} of from_array({a!r}, {dt})>)")
            C.cmp(f"max {vn} {tag}", "max/" + vn, nt, lambda: num(mkv().max(), dense.max()), lambda: key(dense.max()))
            if dt != "bool" or True:
                bins = [-3, 0, 1, 2, 4, 2 ** 41]
                if vn == "plain" and dt != "bool":
                    hk = lambda h: [kl(h[0]), kl(h[1])]
                if vn == "plain" and dt != "bool":      # the keyword forms: density, range, an integer number of bins (edges and densities compared bit by bit)
                    hk = lambda h: [kl(h[0]), kl(h[1])]
                    # edges given as an ndarray (F41), and edges whose last one is the largest value of the data (the last bin is closed on the right)
                    top = float(np.max(dense.astype(float))) if np.all(np.isfinite(dense.astype(float))) else 4.0
                    lo_ = float(np.min(dense.astype(float))) if np.all(np.isfinite(dense.astype(float))) else -3.0
                    if lo_ < top:
                        edges = [lo_ - 1.0, (lo_ + top) / 2.0, top]
                        C.cmp(f"histogram last-edge=max {tag}", "histogram/closed-last-bin", nt, lambda: hk(np.histogram(mkv(), bins=edges)), lambda: hk(np.histogram(dense, bins=edges)), py=f"np.histogram(from_array({a!r}, {dt}), bins={edges})")
                        C.cmp(f"histogram ndarray-edges {tag}", "histogram/ndarray-edges", nt, lambda: hk(np.histogram(mkv(), bins=np.array(edges))), lambda: hk(np.histogram(dense, bins=np.array(edges))), py=f"np.histogram(from_array({a!r}, {dt}), bins=np.array({edges}))")
                    for kname, kw in (("density", dict(bins=bins, density=True)), ("range+bins", dict(bins=4, range=(-3.0, 5.0))), ("positional-bins", None)):
                        if kw is None:
                            C.cmp(f"histogram positional {tag}", "histogram/keywords", nt, lambda: hk(np.histogram(mkv(), 5, (-2.0, 8.0))), lambda: hk(np.histogram(dense, 5, (-2.0, 8.0))), py=f"np.histogram(from_array({a!r}, {dt}), 5, (-2.0, 8.0))")
                        else:
                            C.cmp(f"histogram {kname} {tag}", "histogram/keywords", nt, lambda: hk(np.histogram(mkv(), **kw)), lambda: hk(np.histogram(dense, **kw)), py=f"np.histogram(from_array({a!r}, {dt}), **{kw!r})")
                C.cmp(f"histogram {vn} {tag}", "histogram/" + vn, nt, lambda: kl(np.histogram(mkv(), bins=bins)[0]), lambda: kl(np.histogram(dense.astype(float) if dt == "bool" else dense, bins=bins)[0]),
                      py=f"np.histogram(<{vn} of from_array({a!r}, {dt})>, bins={bins})")
        if ci % 3 == 1:
            dtb = DT[(DT.index(dt) + 1 + ci) % len(DT)]
            pb = [SMALL[dtb][(ci + t) % len(SMALL[dtb])] for t in range(1 + ci % 4)]
            if dtb in ("int64", "uint64"): pb = pb[:-1] + [300]
            if dtb.startswith("float"): pb = pb[:-1] + [0.5]
            C.cmp(f"concatenate-mixed {dt} {a!r} + {dtb} {pb!r}", "concatenate/mixed-dtypes", True, lambda: rl_obs(np.concatenate([enc(a, dt), enc(pb, dtb)]), 1, with_canon=False),
                  lambda: spec_rl(np.concatenate([np.array(a, dtype=dt), np.array(pb, dtype=dtb)]), canon=False), py=f"np.concatenate([from_array({a!r}, {dt}), from_array({pb!r}, {dtb})])")
        if ci % 3 == 0:
            parts = [a] + [rng.choice(arrs)[1] if False else [rng.choice(SMALL[dt]) for _ in range(rng.randint(1, 4))] for _ in range(rng.randint(0, 2))]
            C.cmp(f"concatenate {dt} {parts!r}", "concatenate", True, lambda: rl_obs(np.concatenate([enc(p, dt) for p in parts]), 1, with_canon=False),
                  lambda: spec_rl(np.concatenate([np.array(p, dtype=dt) for p in parts]), canon=False), py=f"np.concatenate([from_array(p, {dt}) for p in {parts!r}])")
