From Coq Require Import ZifyBool.
From NPS Require Import ListAux PySlice NumpySem Scatter BuildIdx View Index Denote RaOps.
Open Scope Z_scope.

(* C07: diff of order n (arrayfunctions.py L79-95): the n-th difference of the flat buffer, cut at the row starts,
   is the n-th difference of each row; rows shorter than n+1 become empty *)

Definition win {X} (p L : nat) (l : list X) : list X := firstn L (skipn p l).

Lemma diff1_length l : length (diff1 l) = (length l - 1)%nat.
Proof.
  induction l as [|x l IH]; [reflexivity|]. destruct l as [|y l]; [reflexivity|].
  change (diff1 (x :: y :: l)) with ((y - x) :: diff1 (y :: l)). cbn [length] in *. lia.
Qed.
Lemma np_diff_length n : forall l, length (np_diff n l) = (length l - n)%nat.
Proof. induction n as [|n IH]; intros l; cbn [np_diff]; [lia|]. rewrite IH, diff1_length. lia. Qed.

Lemma skipn_diff1 p : forall l, skipn p (diff1 l) = diff1 (skipn p l).
Proof.
  induction p as [|p IH]; intros l; [reflexivity|]. destruct l as [|x l]; [reflexivity|].
  destruct l as [|y l]; [destruct p; reflexivity|].
  change (diff1 (x :: y :: l)) with ((y - x) :: diff1 (y :: l)). cbn [skipn]. apply IH.
Qed.
Lemma firstn_diff1 m : forall l, firstn m (diff1 l) = diff1 (firstn (S m) l).
Proof.
  induction m as [|m IH]; intros l.
  - destruct l as [|x [|y l]]; reflexivity.
  - destruct l as [|x l]; [reflexivity|]. destruct l as [|y l]; [reflexivity|].
    change (diff1 (x :: y :: l)) with ((y - x) :: diff1 (y :: l)).
    change (firstn (S (S m)) (x :: y :: l)) with (x :: firstn (S m) (y :: l)).
    cbn [firstn]. rewrite IH. cbn [firstn]. reflexivity.
Qed.
Lemma win_diff1 p L (l : list Z) : win p (L - 1) (diff1 l) = diff1 (win p L l).
Proof.
  unfold win. rewrite skipn_diff1. destruct L as [|L].
  - cbn [Nat.sub firstn]. reflexivity.
  - replace (S L - 1)%nat with L by lia. apply firstn_diff1.
Qed.

Lemma np_diff_short n : forall l, (length l <= n)%nat -> np_diff n l = [].
Proof. intros l H. apply length_zero_iff_nil. rewrite np_diff_length. lia. Qed.

(* the n-th difference is local *)
Theorem win_np_diff n : forall p L (l : list Z), win p (L - n) (np_diff n l) = np_diff n (win p L l).
Proof.
  induction n as [|n IH]; intros p L l; cbn [np_diff]; [now rewrite Nat.sub_0_r|].
  replace (L - S n)%nat with ((L - 1) - n)%nat by lia. rewrite IH, win_diff1. reflexivity.
Qed.

Lemma win_row {X} (pre r post : list X) : win (length pre) (length r) (pre ++ r ++ post) = r.
Proof.
  unfold win. rewrite skipn_app, skipn_all, Nat.sub_diag. cbn [skipn app].
  rewrite firstn_app, firstn_all, Nat.sub_diag. cbn [firstn]. apply app_nil_r.
Qed.

Section DiffRows.
Variable n : nat.

(* the rows cut out of the global difference *)
Lemma cut_rows : forall (R : list (list Z)) (pre post : list Z),
  let flat := pre ++ concat R ++ post in
  let d := np_diff n flat in
  map (row_cells Z 0 d 1) (combine (excl_from (zlen pre) (map zlen R)) (map (fun l => Z.max (l - Z.of_nat n) 0) (map zlen R)))
  = map (np_diff n) R.
Proof.
  induction R as [|r R IH]; intros pre post flat d; [reflexivity|].
  cbn [map excl_from combine]. f_equal.
  - destruct (Nat.le_gt_cases (length r) n) as [Hshort|Hlong].
    { rewrite (np_diff_short n r Hshort). unfold row_cells, ap. cbn [fst snd].
      replace (Z.to_nat (Z.max (zlen r - Z.of_nat n) 0)) with 0%nat by (unfold zlen; lia). reflexivity. }
    rewrite ap_unit_cells.
    + unfold ztake, zdrop. replace (Z.to_nat (Z.max (zlen r - Z.of_nat n) 0)) with (length r - n)%nat by (unfold zlen; lia).
      unfold zlen. rewrite Nat2Z.id. change (firstn (length r - n) (skipn (length pre) d)) with (win (length pre) (length r - n) d).
      unfold d. rewrite win_np_diff. f_equal. unfold flat. cbn [concat]. rewrite <- app_assoc. apply win_row.
    + unfold zlen; lia.
    + lia.
    + unfold d, flat, zlen. rewrite np_diff_length. cbn [concat]. rewrite !app_length. lia.
  - specialize (IH (pre ++ r) post). cbn zeta in IH.
    replace (zlen (pre ++ r)) with (zlen pre + zlen r) in IH by (unfold zlen; rewrite app_length; lia).
    unfold d, flat. cbn [concat]. rewrite <- !app_assoc in *. exact IH.
Qed.

Lemma cut_rows_ok : forall (R : list (list Z)) (pre post : list Z),
  Forall (row_ok (zlen (np_diff n (pre ++ concat R ++ post))) 1)
         (combine (excl_from (zlen pre) (map zlen R)) (map (fun l => Z.max (l - Z.of_nat n) 0) (map zlen R))).
Proof.
  induction R as [|r R IH]; intros pre post; [constructor|].
  cbn [map excl_from combine]. constructor.
  - split; cbn [fst snd]; [lia|]. intros k Hk. unfold zlen in *. rewrite np_diff_length. cbn [concat]. rewrite !app_length. lia.
  - specialize (IH (pre ++ r) post).
    replace (zlen (pre ++ r)) with (zlen pre + zlen r) in IH by (unfold zlen; rewrite app_length; lia).
    cbn [concat]. rewrite <- !app_assoc in *. exact IH.
Qed.

Theorem diff_correct (R : list (list Z)) :
  ra_diff (Z.of_nat n) (fr_of_rows R) = Ok (fr_of_rows (spec_diff (Z.of_nat n) R)).
Proof.
  unfold ra_diff, fr_of_rows, spec_diff. cbn [fst snd]. rewrite Nat2Z.id. unfold excl_prefix.
  set (lens' := map (fun l => Z.max (l - Z.of_nat n) 0) (map zlen R)).
  set (rows := combine (excl_from 0 (map zlen R)) lens').
  pose proof (cut_rows_ok R [] []) as Hok. cbn [app] in Hok. rewrite app_nil_r in Hok. change (zlen (@nil Z)) with 0 in Hok.
  fold lens' in Hok. fold rows in Hok.
  pose proof (gather_view Z 0 {| ra_data := np_diff n (concat R); ra_geom := GRows rows |}) as Hg.
  cbn [ra_data ra_geom] in Hg. rewrite Hg by (split; [exact Hok|exact I]). cbn [rmap]. f_equal.
  unfold denote. cbn [ra_data ra_geom g_rows g_step].
  pose proof (cut_rows R [] []) as Hc. cbn [app] in Hc. cbn zeta in Hc. rewrite app_nil_r in Hc. change (zlen (@nil Z)) with 0 in Hc.
  fold lens' in Hc. fold rows in Hc. rewrite Hc.
  unfold lens'. rewrite !map_map.
  rewrite (map_ext (fun x : list Z => zlen (np_diff n x)) (fun x => Z.max (zlen x - Z.of_nat n) 0)); [reflexivity|].
  intros r. unfold zlen. rewrite np_diff_length. lia.
Qed.
End DiffRows.
Print Assumptions diff_correct.
