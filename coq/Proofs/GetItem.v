From Coq Require Import ZifyBool.
From NPS Require Import ListAux PySlice NumpySem Scatter BuildIdx SliceAP View Index RLE XorProof Denote SelRows MaterialiseWF Kernels ColSlice RowsSpec.
Open Scope Z_scope.

Section G.
Variable A : Type.
Variable dflt : A.
Notation denote := (denote A dflt).
Notation WF := (WF A).
Notation row_cells := (row_cells A dflt).
Notation row_ok := Denote.row_ok.

Lemma observe_lazy (a : ra A) : WF a -> observe (GLazy a) = Ok (RRagged (denote a)).
Proof. intros H. cbn [observe]. now rewrite (rows_of_denote A dflt a H). Qed.
Lemma observe_whole (a : ra A) : WF a -> observe (GWhole a) = Ok (RRagged (denote a)).
Proof. intros H. cbn [observe]. now rewrite (rows_of_denote A dflt a H). Qed.

Definition with_geom (a : ra A) (g : geom) : ra A := {| ra_data := ra_data a ; ra_geom := g |}.

(* row selection on the geometry mirrors row selection on the denoted rows *)
Lemma select_rows_denote (a : ra A) s : WF a ->
  match sel_rows s (denote a) with
  | Ok R' => exists g', select_rows_geom (ra_geom a) s = Ok g' /\ WF (with_geom a g') /\ denote (with_geom a g') = R'
  | Refused => select_rows_geom (ra_geom a) s = Refused
  end.
Proof.
  intros [Hrows _]. unfold Denote.denote at 1. rewrite sel_rows_map.
  destruct (sel_rows s (g_rows (ra_geom a))) as [rows'|] eqn:E; cbn [rmap].
  - assert (Hok : Forall (row_ok (zlen (ra_data a)) (g_step (ra_geom a))) rows').
    { apply Forall_forall. intros r Hr. rewrite Forall_forall in Hrows. apply Hrows. eapply sel_rows_In; eauto. }
    destruct (ra_geom a) as [rows|rows|rows c] eqn:Eg; cbn [select_rows_geom g_rows g_step] in *; rewrite E; cbn [rmap];
      eexists; (split; [reflexivity|]); (split; [split; [exact Hok|exact I]|reflexivity]).
  - destruct (ra_geom a); cbn [select_rows_geom g_rows] in *; now rewrite E.
Qed.

Definition model_obs (a : ra A) (idx : index) : res (result A) := rbind (getitem a idx) observe.

Lemma case_whole (a : ra A) : WF a -> rbind (rmap GWhole (materialise a)) observe = Ok (RRagged (denote a)).
Proof.
  intros HW. destruct (materialise_wf A dflt a HW) as (a' & Em & HW' & _ & Hd).
  rewrite Em. cbn [rmap rbind]. rewrite observe_whole by assumption. now rewrite Hd.
Qed.

(* a row of a contiguous array is a basic slice of the buffer *)
Lemma contig_row_slice (a' : ra A) r : WF a' -> is_contig (ra_geom a') -> In r (g_rows (ra_geom a')) ->
  ztake (snd r) (zdrop (fst r) (ra_data a')) = row_cells (ra_data a') 1 r /\ g_step (ra_geom a') = 1.
Proof.
  intros [Hrows Hc] Hcg Hin. destruct (ra_geom a') as [rows| |] eqn:Eg; try contradiction. cbn [g_rows g_step] in *.
  destruct Hc as [Hcomb Hsum]. destruct r as [s L]. rewrite Hcomb in Hin.
  assert (Hnn : all_nonneg (map snd rows)) by (apply Forall_map; eapply Forall_row_ok_nonneg; exact Hrows).
  destruct (contig_rows_bounds (map snd rows) 0 s L Hnn ltac:(lia) Hin) as (H1 & H2 & H3).
  split; [|reflexivity]. cbn [fst snd]. symmetry. apply ap_unit_cells; lia.
Qed.

Lemma case_row_int (a : ra A) i : WF a ->
  model_obs a (IRow (ROne i)) = rmap RFlat (np_item (denote a) i).
Proof.
  intros HW. unfold model_obs. cbn [getitem].
  destruct (materialise_wf A dflt a HW) as (a' & Em & HW' & Hcg & Hd).
  rewrite Em. cbn [rbind]. rewrite <- Hd. unfold Denote.denote. rewrite np_item_map.
  destruct (np_item (g_rows (ra_geom a')) i) as [r|] eqn:E; cbn [rmap rbind observe]; [|reflexivity].
  destruct (contig_row_slice a' r HW' Hcg (np_item_In _ _ _ E)) as [Hs Hst]. now rewrite Hs, Hst.
Qed.

Lemma case_rows (a : ra A) s : WF a ->
  model_obs a (IRow (RMany s)) = rmap RRagged (sel_rows s (denote a)).
Proof.
  intros HW. unfold model_obs.
  assert (Hgen : forall s0, rbind (rmap (fun g => GLazy (with_geom a g)) (select_rows_geom (ra_geom a) s0)) observe
                         = rmap RRagged (sel_rows s0 (denote a))).
  { intros s0. pose proof (select_rows_denote a s0 HW) as H.
    destruct (sel_rows s0 (denote a)) as [R'|] eqn:E.
    - destruct H as (g' & Eg & HW' & Hd). rewrite Eg. cbn [rmap rbind]. rewrite observe_lazy by assumption. now rewrite Hd.
    - rewrite H. reflexivity. }
  destruct s as [sl|idx|m|]; cbn [getitem]; try apply Hgen.
  cbn [sel_rows rmap]. now apply case_whole.
Qed.

(* ---------- boolean ragged mask ---------- *)
Lemma contig_data_concat (a' : ra A) : WF a' -> is_contig (ra_geom a') -> concat (denote a') = ra_data a'.
Proof.
  intros HW Hcg. pose proof (rows_of_denote A dflt a' HW) as H. unfold rows_of, materialise in H.
  destruct HW as [Hrows Hc]. destruct (ra_geom a') as [rows| |] eqn:Eg; try contradiction.
  cbn [rmap] in H. injection H as H. rewrite <- H. rewrite Eg. cbn [g_lengths g_rows].
  destruct Hc as [_ Hsum]. apply segments_concat; [|assumption].
  apply Forall_map. eapply Forall_row_ok_nonneg. exact Hrows.
Qed.

Lemma fnz_gather (pre d : list A) (m : list bool) : length m = length d ->
  Forall (fun p => 0 <= p < zlen (pre ++ d)) (fnz_from (zlen pre) m) /\
  map (znth dflt (pre ++ d)) (fnz_from (zlen pre) m) = mask_filter d m.
Proof.
  revert pre m; induction d as [|x d IH]; intros pre [|b m] Hlen; cbn in Hlen; try discriminate.
  - split; [constructor|reflexivity].
  - injection Hlen as Hlen. specialize (IH (pre ++ [x]) m Hlen).
    assert (Hz : zlen (pre ++ [x]) = zlen pre + 1) by (unfold zlen; rewrite app_length; cbn; lia).
    rewrite Hz, <- app_assoc in IH. cbn [app] in IH. destruct IH as [IH1 IH2].
    cbn [fnz_from mask_filter]. destruct b.
    + split.
      * constructor; [|exact IH1]. unfold zlen. rewrite app_length. cbn [length]. lia.
      * cbn [map]. rewrite IH2. f_equal. apply znth_app_at.
    + split; assumption.
Qed.

Lemma case_mask (a : ra A) m : WF a -> map (@length A) (denote a) = map (@length bool) m ->
  model_obs a (IMask m) = Ok (RFlat (mask_filter (concat (denote a)) (concat m))).
Proof.
  intros HW Hshape. unfold model_obs. cbn [getitem].
  destruct (materialise_wf A dflt a HW) as (a' & Em & HW' & Hcg & Hd).
  rewrite Em. cbn [rbind]. rewrite <- Hd in *. rewrite (contig_data_concat a' HW' Hcg) in *.
  assert (Hlen : length (concat m) = length (ra_data a')).
  { rewrite <- (contig_data_concat a' HW' Hcg). clear - Hshape. revert m Hshape.
    induction (denote a') as [|r R IH]; intros [|mr m] H; cbn in *; try discriminate; [reflexivity|].
    injection H as H1 H2. rewrite !app_length, (IH m H2). lia. }
  destruct (fnz_gather [] (ra_data a') (concat m) Hlen) as [Hr Hv]. cbn [app] in *.
  unfold flatnonzero. change 0 with (zlen (@nil A)). rewrite (np_take_in_range A dflt) by exact Hr.
  cbn [rmap rbind observe]. now rewrite Hv.
Qed.

(* ---------- element access ---------- *)
Definition spec_cell (R : list (list A)) (p : Z * Z) : res A :=
  rbind (np_item R (fst p)) (fun row => np_item row (snd p)).

Lemma np_item_cells (d : list A) s L j : 0 <= L ->
  np_item (row_cells d 1 (s, L)) j =
  if (j >=? L) || (j <? - L) then Refused else Ok (znth dflt d (s + (if j <? 0 then L + j else j))).
Proof.
  intros HL. unfold np_item, py_index, py_norm_index. rewrite (row_cells_zlen A dflt) by (cbn; lia). cbn [snd].
  rewrite (orb_comm (j >=? L)). destruct ((j <? - L) || (j >=? L)) eqn:E; [reflexivity|].
  set (j' := if j <? 0 then j + L else j).
  assert (Hj : 0 <= j' < L) by (unfold j'; destruct (j <? 0) eqn:?; lia).
  unfold Denote.row_cells. cbn [fst snd]. rewrite nth_error_map. unfold ap.
  rewrite (nth_error_nth' _ 0) by (rewrite ap_nat_length; lia).
  rewrite ap_nat_nth by lia. cbn [option_map]. do 2 f_equal. unfold j'. destruct (j <? 0); lia.
Qed.

Lemma element_pair (a' : ra A) i j : WF a' -> is_contig (ra_geom a') ->
  match element_flat (g_rows (ra_geom a')) i j with
  | Ok p => 0 <= p < zlen (ra_data a') /\ spec_cell (denote a') (i, j) = Ok (znth dflt (ra_data a') p)
  | Refused => spec_cell (denote a') (i, j) = Refused
  end.
Proof.
  intros HW Hcg. pose proof HW as [Hrows _].
  unfold element_flat, spec_cell. cbn [fst snd]. unfold Denote.denote. rewrite np_item_map.
  set (rows := g_rows (ra_geom a')) in *.
  destruct (i >=? zlen rows) eqn:Ei.
  - assert (E : np_item rows i = Refused).
    { unfold np_item, py_index, py_norm_index. replace ((i <? - zlen rows) || (i >=? zlen rows)) with true by lia. reflexivity. }
    now rewrite E.
  - destruct (np_item rows i) as [[s L]|] eqn:E; cbn [rmap rbind]; [|reflexivity].
    pose proof (np_item_In _ _ _ E) as Hin.
    destruct (contig_row_slice a' (s, L) HW Hcg Hin) as [_ Hst]. rewrite Hst.
    rewrite Forall_forall in Hrows. specialize (Hrows (s, L) Hin). destruct Hrows as [HL Hpos]. cbn [fst snd] in *.
    rewrite np_item_cells by assumption.
    destruct ((j >=? L) || (j <? - L)) eqn:Ej; [reflexivity|].
    split; [|reflexivity].
    rewrite Hst in Hpos. specialize (Hpos (if j <? 0 then L + j else j)).
    replace (s + (if j <? 0 then L + j else j) * 1) with (s + (if j <? 0 then L + j else j)) in Hpos by lia.
    apply Hpos. destruct (j <? 0) eqn:?; lia.
Qed.

Lemma elements_list (a' : ra A) pairs : WF a' -> is_contig (ra_geom a') ->
  rbind (rsequence (map (fun p => element_flat (g_rows (ra_geom a')) (fst p) (snd p)) pairs))
        (fun flat => np_take (ra_data a') flat)
  = rsequence (map (spec_cell (denote a')) pairs).
Proof.
  intros HW Hcg.
  assert (H : match rsequence (map (fun p => element_flat (g_rows (ra_geom a')) (fst p) (snd p)) pairs) with
              | Ok flat => Forall (fun p => 0 <= p < zlen (ra_data a')) flat /\
                           rsequence (map (spec_cell (denote a')) pairs) = Ok (map (znth dflt (ra_data a')) flat)
              | Refused => rsequence (map (spec_cell (denote a')) pairs) = Refused
              end).
  { induction pairs as [|[i j] pairs IH]; [split; [constructor|reflexivity]|].
    cbn [map rsequence fst snd]. pose proof (element_pair a' i j HW Hcg) as Hp.
    destruct (element_flat (g_rows (ra_geom a')) i j) as [p|].
    - destruct Hp as [Hr Hs]. rewrite Hs.
      destruct (rsequence (map (fun p => element_flat (g_rows (ra_geom a')) (fst p) (snd p)) pairs)) as [flat|].
      + destruct IH as [IH1 IH2]. rewrite IH2. split; [constructor; assumption|reflexivity].
      + rewrite IH. reflexivity.
    - rewrite Hp. reflexivity. }
  destruct (rsequence (map (fun p => element_flat (g_rows (ra_geom a')) (fst p) (snd p)) pairs)) as [flat|]; cbn [rbind].
  - destruct H as [H1 H2]. rewrite H2. now apply (np_take_in_range A dflt).
  - now rewrite H.
Qed.

Lemma case_elements (a : ra A) pairs : WF a ->
  get_elements a pairs = rsequence (map (spec_cell (denote a)) pairs).
Proof.
  intros HW. unfold get_elements. destruct (materialise_wf A dflt a HW) as (a' & Em & HW' & Hcg & Hd).
  rewrite Em. cbn [rbind]. rewrite <- Hd. now apply elements_list.
Qed.

(* ---------- the view path: rows first, then columns ---------- *)
Lemma view_rows_denote (a : ra A) r : WF a ->
  match spec_rows (denote a) r with
  | Ok (R', sq) => exists rows, view_rows_geom (ra_geom a) r = Ok (rows, g_step (ra_geom a)) /\
                     Forall (row_ok (zlen (ra_data a)) (g_step (ra_geom a))) rows /\
                     map (row_cells (ra_data a) (g_step (ra_geom a))) rows = R' /\
                     sq = match r with ROne _ => true | RMany _ => false end /\
                     match r with ROne _ => length R' = 1%nat | RMany _ => True end
  | Refused => view_rows_geom (ra_geom a) r = Refused
  end.
Proof.
  intros [Hrows _]. rewrite Forall_forall in Hrows. unfold spec_rows, view_rows_geom, Denote.denote.
  destruct r as [i|s].
  - rewrite np_item_map. destruct (np_item (g_rows (ra_geom a)) i) as [r|] eqn:E; cbn [rmap]; [|reflexivity].
    exists [r]. repeat split; auto. constructor; [|constructor]. apply Hrows. eapply np_item_In; eauto.
  - rewrite sel_rows_map. destruct (sel_rows s (g_rows (ra_geom a))) as [rows|] eqn:E; cbn [rmap]; [|reflexivity].
    exists rows. repeat split; auto. apply Forall_forall. intros r Hr. apply Hrows. eapply sel_rows_In; eauto.
Qed.

Lemma col_slice_sl_eq rows c sl : step_of sl <> 0 ->
  col_slice_sl rows c sl = Ok (GView2 (map (col_kernel c sl) rows) (c * step_of sl)).
Proof.
  intros Hk. unfold col_slice_sl, col_kernel. replace (step_of sl =? 0) with false by lia.
  destruct (step_of sl >? 0); [reflexivity|]. now rewrite (Z.mul_comm (step_of sl) c).
Qed.

Lemma col_slice_rows (d : list A) c sl rows : Forall (row_ok (zlen d) c) rows -> step_of sl <> 0 ->
  Forall (row_ok (zlen d) (c * step_of sl)) (map (col_kernel c sl) rows) /\
  map (row_cells d (c * step_of sl)) (map (col_kernel c sl) rows) = map (fun row => slice_list row sl) (map (row_cells d c) rows).
Proof.
  intros H Hk. induction H as [|[s L] rows Hr _ [IH1 IH2]]; [split; [constructor|reflexivity]|].
  destruct (col_slice_row A dflt d (zlen d) c sl s L Hr Hk) as [Hc Hok]. cbn zeta in *.
  cbn [map]. split; [constructor; assumption|]. now rewrite Hc, IH2.
Qed.

Lemma np_item_cells_gen (d : list A) c s L j : 0 <= L ->
  np_item (row_cells d c (s, L)) j =
  if (j >=? L) || (j <? - L) then Refused else Ok (znth dflt d (s + (if j <? 0 then L + j else j) * c)).
Proof.
  intros HL. unfold np_item, py_index, py_norm_index. rewrite (row_cells_zlen A dflt) by (cbn; lia). cbn [snd].
  rewrite (orb_comm (j >=? L)). destruct ((j <? - L) || (j >=? L)) eqn:E; [reflexivity|].
  set (j' := if j <? 0 then j + L else j).
  assert (Hj : 0 <= j' < L) by (unfold j'; destruct (j <? 0) eqn:?; lia).
  unfold Denote.row_cells. cbn [fst snd]. rewrite nth_error_map. unfold ap.
  rewrite (nth_error_nth' _ 0) by (rewrite ap_nat_length; lia).
  rewrite ap_nat_nth by lia. cbn [option_map]. do 3 f_equal. unfold j'. rewrite Z2Nat.id by lia. destruct (j <? 0); lia.
Qed.

Lemma zmin_list_le l : Forall (fun x => zmin_list l <= x) l.
Proof.
  destruct l as [|x l]; [constructor|]. unfold zmin_list.
  assert (G : forall l acc, fold_left Z.min l acc <= acc /\ Forall (fun y => fold_left Z.min l acc <= y) l).
  { induction l0 as [|y l0 IH]; intros acc; cbn; [split; [lia|constructor]|].
    destruct (IH (Z.min acc y)) as [H1 H2]. split; [lia|]. constructor; [lia|exact H2]. }
  destruct (G l x) as [H1 H2]. constructor; assumption.
Qed.
Lemma zmin_list_In l : l <> [] -> In (zmin_list l) l.
Proof.
  destruct l as [|x l]; [congruence|]. intros _. unfold zmin_list.
  assert (G : forall l acc, fold_left Z.min l acc = acc \/ In (fold_left Z.min l acc) l).
  { induction l0 as [|y l0 IH]; intros acc; cbn; [now left|].
    destruct (IH (Z.min acc y)) as [H|H]; [|now right; right].
    rewrite H. destruct (Z.min_spec acc y) as [[_ E]|[_ E]]; rewrite E; [now left|now right; left]. }
  destruct (G l x) as [H|H]; [left; now rewrite H|now right].
Qed.

Lemma rsequence_refused_in {X} (l : list (res X)) : In Refused l -> rsequence l = Refused.
Proof.
  induction l as [|r l IH]; intros H; [contradiction|]. cbn [rsequence]. destruct H as [->|H]; [reflexivity|].
  rewrite IH by assumption. destruct r; reflexivity.
Qed.

(* integer column over the selected rows *)
Lemma col_int_rows (d : list A) c j rows : Forall (row_ok (zlen d) c) rows ->
  match col_slice_int rows c j with
  | Ok g2 => g_step g2 = 1 /\ Forall (row_ok (zlen d) 1) (g_rows g2) /\
             rsequence (map (fun row => np_item row j) (map (row_cells d c) rows))
             = Ok (concat (map (row_cells d 1) (g_rows g2)))
  | Refused => rsequence (map (fun row => np_item row j) (map (row_cells d c) rows)) = Refused
  end.
Proof.
  intros Hrows. unfold col_slice_int. set (m := zmin_list (map snd rows)).
  pose proof (zmin_list_le (map snd rows)) as Hle. fold m in Hle. rewrite Forall_map in Hle.
  destruct (negb (Nat.eqb (length rows) 0) && ((j >=? m) || (j <? - m))) eqn:G.
  - (* refused: the shortest row lacks column j *)
    apply andb_true_iff in G. destruct G as [G1 G2].
    assert (Hne : map snd rows <> []) by (destruct rows; [discriminate|discriminate]).
    pose proof (zmin_list_In _ Hne) as Hin. fold m in Hin. apply in_map_iff in Hin. destruct Hin as ([s L] & EL & Hin).
    cbn [snd] in EL. subst L.
    apply rsequence_refused_in. apply in_map_iff. exists (row_cells d c (s, m)). split; [|now apply in_map].
    rewrite Forall_forall in Hrows. destruct (Hrows _ Hin) as [HL _]. cbn [snd] in HL.
    rewrite np_item_cells_gen by assumption. now rewrite G2.
  - (* accepted: every selected row has the column *)
    assert (Hall : Forall (fun r => (j >=? snd r) || (j <? - snd r) = false) rows).
    { destruct rows as [|r0 rows0]; [constructor|]. cbn [length Nat.eqb negb andb] in G.
      eapply Forall_impl; [|exact Hle]. intros r Hr. cbv beta in Hr. lia. }
    clear G Hle. induction Hrows as [|[s L] rows [HL Hpos] Hrows IH].
    + destruct (j >=? 0); cbn; repeat split; constructor.
    + inversion Hall as [|? ? Hj Hall']; subst. cbn [fst snd] in *. specialize (IH Hall').
      assert (Hcell : np_item (row_cells d c (s, L)) j = Ok (znth dflt d (s + (if j <? 0 then L + j else j) * c)))
        by (rewrite np_item_cells_gen by assumption; now rewrite Hj).
      assert (Hp : 0 <= s + (if j <? 0 then L + j else j) * c < zlen d) by (apply Hpos; destruct (j <? 0) eqn:?; lia).
      destruct (j >=? 0) eqn:Ej; cbn [g_step g_rows map] in *; destruct IH as (_ & IH2 & IH3);
        (split; [reflexivity|]); (split; [constructor; [|exact IH2]|]).
      * split; cbn [fst snd]; [lia|]. intros k Hk. replace k with 0 by lia.
        replace (j <? 0) with false in Hp by lia. lia.
      * cbn [rsequence]. rewrite Hcell, IH3. cbn [concat]. unfold Denote.row_cells at 2. cbn [fst snd ap Z.to_nat Pos.to_nat ap_nat map app].
        replace (j <? 0) with false by lia. reflexivity.
      * split; cbn [fst snd]; [lia|]. intros k Hk. replace k with 0 by lia.
        replace (j <? 0) with true in Hp by lia. lia.
      * cbn [rsequence]. rewrite Hcell, IH3. cbn [concat]. unfold Denote.row_cells at 2. cbn [fst snd ap Z.to_nat Pos.to_nat ap_nat map app].
        replace (j <? 0) with true by lia. reflexivity.
Qed.

(* ---------- slice(None) is the identity ---------- *)
Lemma all_positions n : 0 <= n -> py_positions n all_slice = ap 0 n 1.
Proof.
  intros Hn. cbv [py_positions py_start py_stop py_count adj step_of all_slice sl_start sl_stop sl_step].
  change (1 <? 0) with false. cbv iota. destruct (0 <? n) eqn:E.
  - rewrite Z.div_1_r. f_equal. lia.
  - replace n with 0 by lia. reflexivity.
Qed.
Lemma gather_all_from {X} (pre rest : list X) :
  flat_map (fun p => match nth_error (pre ++ rest) (Z.to_nat p) with Some x => [x] | None => [] end)
           (ap_nat (zlen pre) 1 (length rest)) = rest.
Proof.
  revert pre; induction rest as [|x rest IH]; intros pre; [reflexivity|].
  cbn [length ap_nat flat_map]. unfold zlen at 1. rewrite Nat2Z.id, nth_error_app2, Nat.sub_diag by lia. cbn [nth_error app].
  f_equal. specialize (IH (pre ++ [x])). rewrite <- app_assoc in IH. cbn [app] in IH.
  replace (zlen (pre ++ [x])) with (zlen pre + 1) in IH by (unfold zlen; rewrite app_length; cbn; lia). exact IH.
Qed.
Lemma slice_list_all {X} (l : list X) : slice_list l all_slice = l.
Proof.
  unfold slice_list. rewrite all_positions by (unfold zlen; lia). unfold ap, zlen. rewrite Nat2Z.id.
  apply (gather_all_from [] l).
Qed.

Lemma rsequence_map_ok {X Y} (f : X -> Y) (l : list X) : rsequence (map (fun x => Ok (f x)) l) = Ok (map f l).
Proof. induction l as [|x l IH]; [reflexivity|]. cbn [map rsequence]. now rewrite IH. Qed.

Lemma gather_geom (a : ra A) g2 : g2 <> GContig (g_rows g2) ->
  Forall (row_ok (zlen (ra_data a)) (g_step g2)) (g_rows g2) ->
  np_take (ra_data a) (flat_indices g2) = Ok (concat (map (row_cells (ra_data a) (g_step g2)) (g_rows g2))).
Proof.
  intros Hnc Hok. assert (HW : WF (with_geom a g2)).
  { split; [exact Hok|]. cbn [with_geom ra_geom]. destruct g2; try exact I. exfalso. now apply Hnc. }
  exact (gather_view A dflt (with_geom a g2) HW).
Qed.

Definition index_ok (R : list (list A)) (idx : index) : Prop :=
  match idx with IMask m => map (@length A) R = map (@length bool) m | _ => True end.

Lemma not_int_typed_pairs r c : is_int_typed r c = false -> element_pairs r c = None.
Proof. destruct r as [i|[ | | | ]], c; cbn; intros H; try discriminate; reflexivity. Qed.

(* ---------- the view path, assembled ---------- *)
Lemma case_view_main (a : ra A) r c : WF a -> is_int_typed r c = false -> c <> CAll ->
  model_obs a (IRowCol r c) = spec_getitem (denote a) (IRowCol r c).
Proof.
  intros HW Hnt HnotAll. unfold model_obs. cbn [getitem spec_getitem]. rewrite Hnt, (not_int_typed_pairs r c Hnt).
  set (r' := match r with RMany RAll => RMany (RSlice all_slice) | _ => r end).
  (* the normalised row selector selects the same rows *)
  assert (Hr' : spec_rows (denote a) r' = spec_rows (denote a) r).
  { destruct r as [i|[ | | | ]]; try reflexivity. unfold r'. cbn [spec_rows sel_rows]. unfold np_slice.
    cbn [valid_slice all_slice step_of sl_step]. change (negb (1 =? 0)) with true. cbv iota. now rewrite slice_list_all. }
  assert (Hsq : match r' with ROne _ => true | RMany _ => false end = match r with ROne _ => true | RMany _ => false end).
  { destruct r as [i|[ | | | ]]; reflexivity. }
  pose proof (view_rows_denote a r' HW) as Hv. rewrite Hr' in Hv.
  destruct (spec_rows (denote a) r) as [[R' sq]|] eqn:Es; cbn [rbind]; [|now rewrite Hv].
  destruct Hv as (rows & Ev & Hok & Hcells & Hsqe & Hone). rewrite Ev. cbn [rbind].
  assert (Hone' : match r with ROne _ => length R' = 1%nat | RMany _ => True end) by (destruct r as [i|[ | | | ]]; exact Hone).
  set (cs := g_step (ra_geom a)) in *. set (d := ra_data a) in *. rewrite Hsq in Hsqe.
  destruct c as [j|sl| |js].
  - (* integer column *)
    pose proof (col_int_rows d cs j rows Hok) as Hc. rewrite Hcells in Hc.
    destruct (col_slice_int rows cs j) as [g2|] eqn:Eg2; cbn [rbind].
    + destruct Hc as (Hst & Hok2 & Hseq). rewrite Hseq. cbn [rmap].
      assert (Hnc : g2 <> GContig (g_rows g2)).
      { unfold col_slice_int in Eg2. destruct (_ && _) in Eg2; [discriminate|]. destruct (j >=? 0); injection Eg2 as <-; discriminate. }
      rewrite <- Hst in Hok2.
      assert (Eg : np_take d (flat_indices g2) = Ok (concat (map (row_cells d 1) (g_rows g2)))).
      { rewrite <- Hst. now apply gather_geom. }
      destruct r; rewrite Eg; reflexivity.
    + now rewrite Hc.
  - (* column slice *)
    destruct (Z.eq_dec (step_of sl) 0) as [E0|E0].
    + unfold col_slice_sl, valid_slice. replace (step_of sl =? 0) with true by lia. reflexivity.
    + rewrite col_slice_sl_eq by assumption. cbn [rbind]. unfold valid_slice. replace (step_of sl =? 0) with false by lia. cbn [negb].
      destruct (col_slice_rows d cs sl rows Hok E0) as [Hok2 Hd2]. rewrite Hcells in Hd2.
      assert (Hspec : rsequence (map (fun row => np_slice row sl) R') = Ok (map (fun row => slice_list row sl) R')).
      { unfold np_slice, valid_slice. replace (negb (step_of sl =? 0)) with true by lia. apply rsequence_map_ok. }
      rewrite Hspec. cbn [rbind].
      set (g2 := GView2 (map (col_kernel cs sl) rows) (cs * step_of sl)) in *.
      destruct r as [i|s0]; subst sq.
      * (* one row: the row slice itself *)
        assert (Eg : np_take d (flat_indices g2) = Ok (concat (map (row_cells d (g_step g2)) (g_rows g2))))
          by (apply gather_geom; [discriminate|exact Hok2]).
        rewrite Eg. cbn [rmap rbind observe g2 g_rows g_step]. rewrite Hd2.
        destruct R' as [|x [|y R'']]; try discriminate Hone'. cbn. now rewrite app_nil_r.
      * assert (HW2 : WF (with_geom a g2)) by (split; [exact Hok2|exact I]).
        change {| ra_data := d; ra_geom := g2 |} with (with_geom a g2). cbn [rbind]. rewrite observe_lazy by assumption.
        unfold Denote.denote. cbn [with_geom ra_data ra_geom g2 g_rows g_step]. fold d. now rewrite Hd2.
  - congruence.
  - reflexivity.
Qed.

Lemma case_view (a : ra A) r c : WF a -> is_int_typed r c = false ->
  model_obs a (IRowCol r c) = spec_getitem (denote a) (IRowCol r c).
Proof.
  intros HW Hnt. destruct (match c with CAll => true | _ => false end) eqn:Ec.
  - destruct c; try discriminate.
    assert (E1 : model_obs a (IRowCol r CAll) = model_obs a (IRowCol r (CSlice all_slice))) by (destruct r as [i|[ | | | ]]; reflexivity).
    assert (E2 : spec_getitem (denote a) (IRowCol r CAll) = spec_getitem (denote a) (IRowCol r (CSlice all_slice))) by (destruct r as [i|[ | | | ]]; reflexivity).
    rewrite E1, E2. apply case_view_main; [assumption| |discriminate]. destruct r as [i|[ | | | ]]; reflexivity.
  - apply case_view_main; try assumption. destruct c; discriminate.
Qed.

Theorem getitem_correct (a : ra A) idx : WF a -> index_ok (denote a) idx ->
  model_obs a idx = spec_getitem (denote a) idx.
Proof.
  intros HW Hok. destruct idx as [[i|s]|r c|m|].
  - rewrite case_row_int by assumption. cbn [spec_getitem spec_rows].
    destruct (np_item (denote a) i); reflexivity.
  - rewrite case_rows by assumption. cbn [spec_getitem spec_rows].
    destruct (sel_rows s (denote a)) as [[|x [|y l]]|]; reflexivity.
  - destruct (is_int_typed r c) eqn:Et; [|now apply case_view].
    unfold model_obs. cbn [getitem spec_getitem]. rewrite Et.
    destruct (element_pairs r c) as [[pairs sc]|]; [|reflexivity].
    rewrite case_elements by assumption. fold (spec_cell (denote a)).
    change (fun p : Z * Z => rbind (np_item (denote a) (fst p)) (fun row : list A => np_item row (snd p))) with (spec_cell (denote a)).
    destruct (rsequence (map (spec_cell (denote a)) pairs)) as [l|]; cbn [rbind]; [|reflexivity].
    destruct sc; [destruct l as [|x [|y l']]; reflexivity|reflexivity].
  - cbn [index_ok] in Hok. rewrite case_mask by assumption. cbn [spec_getitem].
    destruct (list_eq_dec Nat.eq_dec (map (@length A) (denote a)) (map (@length bool) m)); [reflexivity|contradiction].
  - unfold model_obs. cbn [getitem spec_getitem]. now apply case_whole.
Qed.
End G.
Print Assumptions getitem_correct.
