From NPS Require Import ListAux Hash K_hash.
Open Scope Z_scope.
(* HashTable._get_hash re-translated from the current source = the hash of Model/Hash.v *)
Lemma tie_hash k m : gen_hash k m = hash m k.
Proof. reflexivity. Qed.

(* the branch for a Python int query (modulus taken as a Python int, F37) computes the same hash *)
Lemma tie_hash_pyint k m : gen_hash_pyint k m = hash m k.
Proof. reflexivity. Qed.
