(* C09 — property theorems only: each restates the full statement and is closed by the lemma proved in Proofs/. *)
From Coq Require Import ZArith List Bool.
From NPS Require Import ListAux PySlice NumpySem Scatter BuildIdx XorBroadcast View Index Assign Reduce Scan RaOps Heap Hash HashRun BitArr RLE RLEOps RLE2d DataClass RowsSpec AssignSpec MapSpec Denote ColProof ColSum Struct2 Struct2Proof.
Import ListNotations.
Open Scope Z_scope.

Theorem C09_col_counts_correct :
  forall lens : list Z,
       all_nonneg lens ->
       ra_col_counts lens =
       map (fun j : Z => cnt (fun l : Z => j <? l) lens) (ap 0 (fold_left Z.max lens (hd 0 lens)) 1).
Proof. exact col_counts_correct. Qed.
Print Assumptions C09_col_counts_correct.

Theorem C09_colsum_correct :
  forall R : list (list Z), ra_colsum (concat R, map zlen R) = spec_colsum R.
Proof. exact colsum_correct. Qed.
Print Assumptions C09_colsum_correct.

Theorem C09_get_column_values_correct :
  forall (A : Type) (d : A) (R : list (list A)) (j : Z),
       0 <= j ->
       spec_getitem R (IRowCol (RMany (RMask (col_mask (map zlen R) j))) (CInt j)) =
       Ok (RFlat (map (fun r : list A => nth (Z.to_nat j) r d) (filter (fun r : list A => j <? zlen r) R))).
Proof. exact (@get_column_values_correct). Qed.
Print Assumptions C09_get_column_values_correct.
