From Coq Require Import ZifyBool.
From NPS Require Import ListAux PySlice NumpySem Scatter BuildIdx XorBroadcast XorProof RLE RLEProof RLEOps RaOps RLE2d CanonProof BinaryProof StepNeg RLEIndex SubRange StartEnd SortProof GetSlice RL2Proof RL2Col.
Open Scope Z_scope.

(* C17 (partial): a column range with step 1 and both bounds given inside the row, rl[rows, a:b] with 0 <= a < b <= len(row):
   the 2-D code (IndexableMixin._getitem_tuple: np.nonzero on two interval masks, ragged_slice of boundaries and values, first / last
   boundary overwritten, rebased) builds, row by row, exactly the representation that the 1-D _start_to_end builds, and therefore
   decodes to row[a:b].  Other steps, open bounds and bounds outside the row are decided by correspondence only. *)

Definition mask_c (c : Z) (ev : list Z) : list bool := map2 (fun a b => (a <=? c) && (b >? c)) (removelast ev) (tl ev).

Lemma fnz_shift : forall m off, fnz_from (off + 1) m = map (Z.add 1) (fnz_from off m).
Proof. induction m as [|b m IH]; intros off; [reflexivity|]. cbn [fnz_from]. rewrite IH. destruct b; cbn [map]; [f_equal; lia|reflexivity]. Qed.

Lemma removelast_cons2' {X} (a b : X) l : removelast (a :: b :: l) = a :: removelast (b :: l). Proof. reflexivity. Qed.

(* the first (only) run that contains position c is run number ssr ev c - 1 *)
Lemma first_run : forall ev e0 c off, strictly_increasing (e0 :: ev) -> e0 <= c < last (e0 :: ev) 0 ->
  exists t, fnz_from off (mask_c c (e0 :: ev)) = (off + ssr (e0 :: ev) c - 1) :: t.
Proof.
  induction ev as [|e1 ev IH]; intros e0 c off Hs Hc; [cbn [last] in Hc; lia|].
  destruct Hs as [H01 Hs]. unfold mask_c. rewrite removelast_cons2'. change (tl (e0 :: e1 :: ev)) with (e1 :: ev). cbn [map2 fnz_from].
  change (last (e0 :: e1 :: ev) 0) with (last (e1 :: ev) 0) in Hc.
  destruct (Z.lt_ge_cases c e1) as [Hlt|Hge].
  - replace ((e0 <=? c) && (e1 >? c)) with true by lia. eexists. f_equal.
    rewrite ssr_cons. replace (e0 <=? c) with true by lia.
    unfold ssr. rewrite filter_le_all_gt; [cbn; lia|]. constructor; [lia|]. eapply Forall_impl; [|apply (si_all_gt ev e1 Hs)]. cbn; intros; lia.
  - replace ((e0 <=? c) && (e1 >? c)) with false by lia.
    destruct (IH e1 c (off + 1) Hs ltac:(lia)) as [t Et]. unfold mask_c in Et. cbn [tl] in Et. rewrite Et. eexists. f_equal.
    rewrite (ssr_cons e0). replace (e0 <=? c) with true by lia. lia.
Qed.

Lemma find_run_start ev e0 c : strictly_increasing (e0 :: ev) -> e0 <= c < last (e0 :: ev) 0 ->
  find_run (fun a b => (a <=? c) && (b >? c)) (e0 :: ev) = Some (ssr (e0 :: ev) c - 1).
Proof. intros Hs Hc. unfold find_run. destruct (first_run ev e0 c 0 Hs Hc) as [t Et]. unfold flatnonzero, mask_c in *. rewrite Et. f_equal; lia. Qed.
Lemma find_run_stop ev e0 sp : strictly_increasing (e0 :: ev) -> e0 < sp <= last (e0 :: ev) 0 ->
  find_run (fun a b => (b >=? sp) && (a <? sp)) (e0 :: ev) = Some (ssl (e0 :: ev) sp - 1).
Proof.
  intros Hs Hc. unfold find_run.
  assert (Em : map2 (fun a b => (b >=? sp) && (a <? sp)) (removelast (e0 :: ev)) (tl (e0 :: ev)) = mask_c (sp - 1) (e0 :: ev)).
  { unfold mask_c. generalize (removelast (e0 :: ev)) (tl (e0 :: ev)). induction l as [|x l IHl]; intros [|y l']; cbn [map2]; try reflexivity. rewrite IHl. f_equal. lia. }
  rewrite Em. destruct (first_run ev e0 (sp - 1) 0 Hs ltac:(lia)) as [t Et]. unfold flatnonzero. rewrite Et. f_equal.
  assert (E : ssr (e0 :: ev) (sp - 1) = ssl (e0 :: ev) sp).
  { unfold ssr, ssl. f_equal. apply filter_ext. intros x. lia. }
  lia.
Qed.

(* ---------- counting facts ---------- *)
Lemma ssr_le_ssl l a b : a < b -> ssr l a <= ssl l b.
Proof. intros H. induction l as [|x l IH]; [unfold ssr, ssl, zlen; cbn; lia|]. rewrite ssr_cons, ssl_cons. destruct (x <=? a) eqn:E1; destruct (x <? b) eqn:E2; lia. Qed.
Lemma ssl_le_len l b : ssl l b <= zlen l.
Proof. induction l as [|y l IH]; [unfold ssl, zlen; cbn; lia|]. rewrite ssl_cons. unfold zlen in *. cbn [length]. destruct (y <? b); lia. Qed.
Lemma ssl_lt_len l b x : In x l -> b <= x -> ssl l b <= zlen l - 1.
Proof.
  induction l as [|y l IH]; intros Hin Hb; [contradiction|]. rewrite ssl_cons. unfold zlen in *. cbn [length].
  destruct Hin as [->|Hin].
  - replace (x <? b) with false by lia. pose proof (ssl_le_len l b) as Hl. unfold zlen in Hl. lia.
  - specialize (IH Hin Hb). destruct (y <? b); lia.
Qed.

Lemma win_is_slice {X} (l : list X) s e : 0 <= s -> s <= e -> e <= zlen l -> win l s e = zslice_l l s e.
Proof. intros Hs Hse He. unfold win, zslice_l. replace (e <? 0) with false by lia. rewrite Z.min_l by lia. now rewrite Z.max_l by lia. Qed.
Lemma zslice_l_length {X} (l : list X) s e : 0 <= s -> s <= e -> e <= zlen l -> zlen (zslice_l l s e) = e - s.
Proof. intros Hs Hse He. unfold zslice_l, ztake, zdrop, zlen in *. rewrite firstn_length, skipn_length. lia. Qed.

(* first := a, last := b, rebased to a  =  rebased, first := 0, last := b - a *)
Lemma rebase_cut (X : list Z) a b : (2 <= length X)%nat ->
  map (fun x => x - hd 0 (set_first_z (set_last_z X b) a)) (set_first_z (set_last_z X b) a)
  = RLEOps.set_last (match map (fun x => x - a) X with [] => [] | _ :: t => 0 :: t end) (b - a).
Proof.
  intros H. destruct X as [|x0 [|x1 X']]; try (cbn in H; lia). set (X1 := x1 :: X').
  assert (E1 : set_last_z (x0 :: X1) b = x0 :: (removelast X1 ++ [b])) by reflexivity.
  rewrite E1. cbn [set_first_z hd map]. unfold RLEOps.set_last. change (map (fun x => x - a) X1) with (map (fun x => x - a) (x1 :: X')).
  cbn [map]. fold X1.
  change (removelast (0 :: x1 - a :: map (fun x => x - a) X')) with (0 :: removelast (map (fun x => x - a) X1)).
  rewrite removelast_map, map_app. cbn [map app]. f_equal. lia.
Qed.

Remark last_In_ne {X} (l : list X) d : l <> [] -> In (last l d) l.
Proof. intros H. rewrite (app_removelast_last d H) at 2. apply in_or_app. right. now left. Qed.

(* ---------- the 2-D row code builds the representation of the 1-D _start_to_end ---------- *)
Lemma col_range_row_is_start_to_end ev vs a b : strictly_increasing (0 :: ev) -> length ev = length vs -> 0 <= a < b -> b <= last (0 :: ev) 0 ->
  col_range_row (Some a) (Some b) 1 (0 :: ev) vs
  = Some (let S := start_to_end Z (0 :: ev, vs) a b in remove_empty_row (fst S) (snd S)).
Proof.
  intros Hs Hlen Hab Hb. unfold col_range_row. cbv zeta.
  replace (1 <? 0) with false by reflexivity. cbv iota. cbn [option_map].
  set (L := last (0 :: ev) 0) in *.
  assert (Eb : (if b >=? 0 then Z.min L b else Z.max 0 (L + b)) = b) by (destruct (b >=? 0) eqn:?; lia).
  assert (Ea : (if a >=? 0 then Z.min L a else Z.max 0 (L + a)) = a) by (destruct (a >=? 0) eqn:?; lia).
  pattern (if b >=? 0 then Z.min L b else Z.max 0 (L + b)). rewrite Eb. cbv beta.
  pattern (if a >=? 0 then Z.min L a else Z.max 0 (L + a)). rewrite Ea. cbv beta.
  rewrite (find_run_stop ev 0 b Hs) by lia. rewrite (find_run_start ev 0 a Hs) by lia.
  cbn [orb]. unfold cut_row. cbn [option_map].
  set (E := 0 :: ev) in *. set (si := ssr E a - 1). set (ei := ssl E b).
  (* where the two boundaries fall *)
  assert (Hev : ev <> []) by (intros ->; unfold L, E in Hb; cbn in Hb; lia).
  assert (Hsi0 : 0 <= si) by (unfold si, E; rewrite ssr_cons; pose proof (ssr_nonneg ev a); replace (0 <=? a) with true by lia; lia).
  assert (Hsiei : si + 1 <= ei) by (unfold si, ei; pose proof (ssr_le_ssl E a b ltac:(lia)); lia).
  assert (Heilen : ei <= zlen ev).
  { unfold ei, E. rewrite ssl_cons. replace (0 <? b) with true by lia.
    assert (Hin : In (last ev 0) ev) by (apply last_In_ne; exact Hev).
    assert (Hl : L = last ev 0) by (unfold L, E; destruct ev; [congruence|reflexivity]).
    pose proof (ssl_lt_len ev b (last ev 0) Hin ltac:(lia)). lia. }
  assert (HzE : zlen E = zlen ev + 1) by (unfold E, zlen; cbn [length]; lia).
  assert (Hzv : zlen vs = zlen ev) by (unfold zlen; lia).
  replace (ei - 1 + 2) with (ei + 1) by lia. replace (ei - 1 + 1) with ei by lia.
  rewrite (Z.max_r (si + 1) (ei + 1)) by lia. rewrite (Z.max_r si ei) by lia.
  replace (si >=? ei + 1) with false by lia.
  rewrite (win_is_slice E si (ei + 1)) by lia. rewrite (win_is_slice vs si ei) by lia.
  cbn [fst snd].
  assert (HX : (2 <= length (zslice_l E si (ei + 1)))%nat).
  { pose proof (zslice_l_length E si (ei + 1) ltac:(lia) ltac:(lia) ltac:(lia)) as Hlx. unfold zlen in Hlx. lia. }
  rewrite (rebase_cut _ a b HX).
  (* step 1: no division, only the removal of empty runs *)
  unfold step_subset_row. replace (1 <? 0) with false by reflexivity. change (Z.abs 1 =? 1) with true. cbv iota.
  unfold start_to_end. cbn [fst snd]. fold si ei. cbv zeta.
  destruct (remove_empty_row _ _) as [i v]. reflexivity.
Qed.

(* ---------- removing the empty runs of a row does not change what it decodes to ---------- *)
Lemma remove_empty_row_decode : forall ev e vs, length ev = length vs ->
  exists re' rv, remove_empty_row (e :: ev) vs = (e :: re', rv) /\ decode Z (e :: re', rv) = decode Z (e :: ev, vs).
Proof.
  induction ev as [|e' ev' IH]; intros e vs Hlen.
  - destruct vs; [|discriminate]. exists [], []. split; reflexivity.
  - destruct vs as [|v vs']; [discriminate|]. injection Hlen as Hlen.
    destruct (IH e' vs' Hlen) as (re' & rv & Er & Ed).
    change (remove_empty_row (e :: e' :: ev') (v :: vs'))
      with (let '(re, rv) := remove_empty_row (e' :: ev') vs' in if e =? e' then (e :: tl re, rv) else (e :: re, v :: rv)).
    rewrite Er. destruct (e =? e') eqn:E.
    + assert (e = e') by lia. subst e'. cbn [tl]. exists re', rv. split; [reflexivity|].
      rewrite Ed, (decode_cons2 Z e e ev' v vs'). replace (e - e) with 0 by lia. reflexivity.
    + exists (e' :: re'), (v :: rv). split; [reflexivity|]. rewrite !decode_cons2. now rewrite Ed.
Qed.

(* ---------- whole array ---------- *)
Lemma evs_cons ls : ls <> [] -> exists ev, evs ls = 0 :: ev /\ length ev = length ls.
Proof.
  intros H. destruct ls as [|l ls]; [congruence|]. unfold evs, excl_prefix. cbn [excl_from app]. eexists. split; [reflexivity|].
  rewrite app_length, excl_from_length. cbn. lia.
Qed.

Lemma map2_maps {X Y1 Y2 W} (h : Y1 -> Y2 -> W) (f1 : X -> Y1) (f2 : X -> Y2) l : map2 h (map f1 l) (map f2 l) = map (fun p => h (f1 p) (f2 p)) l.
Proof. induction l as [|x l IH]; [reflexivity|]. cbn [map map2]. now rewrite IH. Qed.

Theorem rl2_col_range_pos1_partial (rows : list (list Z * list Z)) (a b : Z) : 0 <= a < b ->
  Forall (fun p => canon Z (fst p) (snd p) /\ b <= zsum (fst p)) rows ->
  exists y, rl2_col_range (of_runs rows) {| sl_start := Some a ; sl_stop := Some b ; sl_step := None |} = Ok y /\
            rl2_decode y = map (fun d => ztake (b - a) (zdrop a d)) (rl2_decode (of_runs rows)).
Proof.
  intros Hab H. unfold rl2_col_range, step_of. cbn [sl_step sl_start sl_stop]. change (1 =? 0) with false. cbv iota.
  assert (Hee : early_empty (Some a) (Some b) 1 = false) by (unfold early_empty; change (1 <? 0) with false; cbv iota; lia).
  rewrite Hee. cbv zeta.
  (* every row: the code's row = a run-length array that decodes to row[a:b] *)
  assert (Hrow : forall p, In p rows -> exists iv, col_range_row (Some a) (Some b) 1 (evs (fst p)) (snd p) = Some iv /\
            decode Z iv = ztake (b - a) (zdrop a (decode Z (evs (fst p), snd p)))).
  { intros [ls vs] Hp. rewrite Forall_forall in H. destruct (H _ Hp) as ([Hl Hlen] & Hb). cbn [fst snd] in *.
    assert (Hne : ls <> []) by (intros ->; cbn in Hb; lia).
    destruct (evs_cons ls Hne) as (ev & Eev & Hlev). rewrite Eev.
    assert (Hsi : strictly_increasing (0 :: ev)).
    { rewrite <- Eev. unfold evs, excl_prefix. replace (zsum ls) with (0 + zsum ls) by lia. apply (si_evs_gen Z 0 Z.eqb (fun x y Hxy => proj1 (Z.eqb_eq x y) Hxy)). exact Hl. }
    assert (Hlast : last (0 :: ev) 0 = zsum ls) by (rewrite <- Eev; unfold evs; apply last_last).
    rewrite (col_range_row_is_start_to_end ev vs a b Hsi ltac:(lia) Hab ltac:(lia)). cbv zeta.
    pose proof (start_to_end_decode Z ev vs 0 a b ltac:(lia) Hsi ltac:(lia) ltac:(lia) ltac:(lia)) as Hd.
    pose proof (start_to_end_shape Z ev vs 0 a b ltac:(lia) Hsi ltac:(lia) ltac:(lia) ltac:(lia)) as Hsh.
    destruct (start_to_end Z (0 :: ev, vs) a b) as [se sv] eqn:Est. cbn [fst snd].
    destruct Hsh as (_ & _ & Hsh3 & _). cbn [fst snd] in Hsh3.
    destruct se as [|s0 se']; [discriminate Hsh3|].
    destruct (remove_empty_row_decode se' s0 sv ltac:(cbn [length] in Hsh3; lia)) as (re' & rv & Er & Ed).
    eexists. split; [rewrite Er; reflexivity|]. rewrite Ed. replace (a - 0) with a in Hd by lia. exact Hd. }
  unfold of_runs. cbn [r_idx r_val r_len]. rewrite (map2_maps (col_range_row (Some a) (Some b) 1) (fun p => evs (fst p)) snd rows).
  set (F := fun p : list Z * list Z => col_range_row (Some a) (Some b) 1 (evs (fst p)) (snd p)) in *.
  assert (Hall : forallb (fun o : option (list Z * list Z) => match o with Some _ => true | None => false end) (map F rows) = true).
  { apply forallb_forall. intros o Ho. apply in_map_iff in Ho. destruct Ho as (p & <- & Hp). destruct (Hrow p Hp) as (iv & E & _). unfold F. now rewrite E. }
  rewrite Hall. eexists. split; [reflexivity|].
  set (rs := flat_map (fun o : option (list Z * list Z) => match o with Some p => [p] | None => [] end) (map F rows)).
  assert (EL : rl2_decode {| r_idx := map fst rs ; r_val := map snd rs ; r_len := None |} = map (decode Z) rs).
  { unfold rl2_decode, rl2_rows. cbn [r_idx r_val r_len]. rewrite (map2_maps _ fst snd rs), map_map. apply map_ext. intros [i v]. reflexivity. }
  assert (ER : rl2_decode {| r_idx := map (fun p : list Z * list Z => evs (fst p)) rows ; r_val := map snd rows ; r_len := None |}
               = map (fun p => decode Z (evs (fst p), snd p)) rows).
  { unfold rl2_decode, rl2_rows. cbn [r_idx r_val r_len]. rewrite (map2_maps _ (fun p : list Z * list Z => evs (fst p)) snd rows), map_map. apply map_ext. intros p. reflexivity. }
  rewrite EL, ER, map_map. unfold rs. clear EL ER rs Hall H.
  induction rows as [|p rows IH]; [reflexivity|].
  cbn [map flat_map]. destruct (Hrow p (or_introl eq_refl)) as (iv & E & Ed). unfold F at 1. rewrite E. cbn [app map]. rewrite Ed. f_equal.
  apply IH. intros q Hq. apply Hrow. now right.
Qed.
Print Assumptions rl2_col_range_pos1_partial.

(* not vacuous: three rows with unrelated run boundaries, the window cuts runs on both sides *)
Example col_range_example :
  let rows := [([2; 3], [5; 7]); ([4; 1], [1; 2]); ([1; 1; 3], [1; 2; 3])] in
  Forall (fun p => canon Z (fst p) (snd p) /\ 4 <= zsum (fst p)) rows /\
  rmap rl2_decode (rl2_col_range (of_runs rows) {| sl_start := Some 1 ; sl_stop := Some 4 ; sl_step := None |}) = Ok [[5; 7; 7]; [1; 1; 1]; [2; 3; 3]].
Proof. split; [repeat constructor; cbn; lia|reflexivity]. Qed.
