From NPS Require Import ListAux PySlice Scatter.
Open Scope Z_scope.

Definition row := (Z * Z)%type.           (* (start, length) of one row of a view *)
Definition view_last (step : Z) (r : row) := fst r + (snd r - 1) * step.
Definition view_end (step : Z) (r : row) := view_last step r + 1.     (* RaggedView2.ends *)
Definition nonempty (r : row) := negb (snd r =? 0).

Fixpoint map2 {A B C} (f : A -> B -> C) (a : list A) (b : list B) : list C :=
  match a, b with x :: a', y :: b' => f x y :: map2 f a' b' | _, _ => [] end.

(* raggedshape.py build_indices L19-41 *)
Definition build_indices (rows : list row) (step : Z) : list Z :=
  let lens := map snd rows in
  let size := zsum lens in
  if size =? 0 then [] else
  let tagged := combine (excl_prefix lens) rows in
  let ne := filter (fun t => nonempty (snd t)) tagged in
  let os := map fst ne in
  let vs := map (fun t => fst (snd t)) ne in
  let ve := map (fun t => view_end step (snd t)) ne in
  let b0 := repeat step (Z.to_nat (size + 1)) in
  let b1 := scatter_set b0 (tl os) (map2 (fun a b => a - b + 1) (tl vs) (removelast ve)) in
  let b2 := zset b1 0 (hd 0 vs) in
  removelast (cumsum b2).

Definition spec_indices (rows : list row) (step : Z) : list Z :=
  concat (map (fun r => ap (fst r) (snd r) step) rows).

(* sanity: the docstring-style examples, also compared with the real code in the harness *)
Example bi1 : build_indices [(10,3);(20,0);(4,2)] 1 = [10;11;12;4;5]. Proof. reflexivity. Qed.
Example bi2 : build_indices [(0,0);(10,3);(20,0);(4,2);(7,0)] (-2) = [10;8;6;4;2]. Proof. reflexivity. Qed.
Example bi3 : build_indices [(0,0);(5,0)] 3 = []. Proof. reflexivity. Qed.

(* ---------- step 1: empty rows do not matter ---------- *)
Lemma ap_zero s step : ap s 0 step = []. Proof. reflexivity. Qed.

Lemma spec_filter rows step : Forall (fun r => 0 <= snd r) rows ->
  spec_indices rows step = spec_indices (filter nonempty rows) step.
Proof.
  induction 1 as [|r rows Hr _ IH]; [reflexivity|].
  unfold spec_indices in *. cbn [map concat filter]. unfold nonempty at 1.
  destruct (snd r =? 0) eqn:E; cbn [negb].
  - apply Z.eqb_eq in E. rewrite E, ap_zero. exact IH.
  - cbn [map concat]. now rewrite IH.
Qed.

Lemma zsum_filter rows : zsum (map snd rows) = zsum (map snd (filter nonempty rows)).
Proof.
  induction rows as [|r rows IH]; [reflexivity|]. cbn [map zsum filter]. unfold nonempty at 1.
  destruct (snd r =? 0) eqn:E; cbn [negb map zsum]; [apply Z.eqb_eq in E|]; lia.
Qed.

Lemma tagged_filter acc rows :
  filter (fun t => nonempty (snd t)) (combine (excl_from acc (map snd rows)) rows)
  = combine (excl_from acc (map snd (filter nonempty rows))) (filter nonempty rows).
Proof.
  revert acc; induction rows as [|r rows IH]; intros acc; [reflexivity|].
  cbn [map excl_from combine filter snd].
  destruct (nonempty r) eqn:E.
  - cbn [map excl_from combine]. now rewrite IH.
  - unfold nonempty in E. apply negb_false_iff, Z.eqb_eq in E. rewrite E.
    replace (acc + 0) with acc by lia. apply IH.
Qed.

(* ---------- step 2: scatter into a constant array = blocks ---------- *)
Definition block (step j l : Z) : list Z := j :: repeat step (Z.to_nat (l - 1)).

Lemma zlen_block step j l : 1 <= l -> zlen (block step j l) = l.
Proof. intros. unfold zlen, block. cbn [length]. rewrite repeat_length. lia. Qed.

Lemma repeat_split {A} (x : A) a b : repeat x (a + b) = repeat x a ++ repeat x b.
Proof. induction a; cbn; congruence. Qed.

Lemma excl_cons l ls : excl_prefix (l :: ls) = 0 :: map (Z.add l) (excl_prefix ls).
Proof. unfold excl_prefix. cbn [excl_from]. f_equal. replace (0 + l) with (l + 0) by lia. apply excl_from_shift2. Qed.

Lemma excl_nonneg acc ls : 0 <= acc -> all_nonneg ls -> Forall (fun p => 0 <= p) (excl_from acc ls).
Proof.
  intros Ha H; revert acc Ha; induction H as [|l ls Hl _ IH]; intros acc Ha; cbn; constructor; [lia|]. apply IH; lia.
Qed.

Lemma excl_ge acc ls : all_nonneg ls -> Forall (fun p => acc <= p) (excl_from acc ls).
Proof.
  intros H; revert acc; induction H as [|l ls Hl _ IH]; intros acc; cbn; constructor; [lia|].
  eapply Forall_impl; [|apply IH]. cbn; intros; lia.
Qed.

Lemma scatter_blocks step ls js : Forall (fun l => 1 <= l) ls -> length js = length ls ->
  scatter_set (repeat step (Z.to_nat (zsum ls + 1))) (excl_prefix ls) js
  = concat (map2 (block step) js ls) ++ [step].
Proof.
  intros H; revert js; induction H as [|l ls Hl Hls IH]; intros js Hlen.
  - destruct js; [reflexivity|discriminate].
  - destruct js as [|j js]; [discriminate|]. injection Hlen as Hlen.
    assert (Hn : all_nonneg ls) by (eapply Forall_impl; [|exact Hls]; cbn; intros; lia).
    pose proof (zsum_nonneg ls Hn) as Hs.
    rewrite excl_cons. cbn [scatter_set map2 concat zsum].
    replace (Z.to_nat (l + zsum ls + 1)) with (S (Z.to_nat (l - 1)) + Z.to_nat (zsum ls + 1))%nat by lia.
    rewrite repeat_split. cbn [repeat app]. unfold zset at 1. cbn [Z.to_nat set_nat].
    change (j :: repeat step (Z.to_nat (l - 1)) ++ repeat step (Z.to_nat (zsum ls + 1)))
      with (block step j l ++ repeat step (Z.to_nat (zsum ls + 1))).
    rewrite <- (zlen_block step j l Hl) at 2.
    rewrite scatter_app_shift by (apply excl_nonneg; [lia|assumption]).
    rewrite IH by assumption. now rewrite app_assoc.
Qed.

(* ---------- step 3: cumsum of blocks = arithmetic progressions ---------- *)
Lemma cumsum_from_app acc a b :
  cumsum_from acc (a ++ b) = cumsum_from acc a ++ cumsum_from (acc + zsum a) b.
Proof.
  revert acc; induction a as [|x a IH]; intros acc; cbn [app cumsum_from zsum].
  - f_equal; lia.
  - rewrite IH. do 3 f_equal. lia.
Qed.

Lemma cumsum_repeat acc step n : cumsum_from acc (repeat step n) = ap_nat (acc + step) step n.
Proof. revert acc; induction n as [|n IH]; intros acc; cbn; [reflexivity|]. now rewrite IH. Qed.

Lemma zsum_repeat step n : zsum (repeat step n) = Z.of_nat n * step.
Proof. induction n as [|n IH]; cbn [repeat zsum]; lia. Qed.

Lemma cumsum_block acc step j l : 1 <= l ->
  cumsum_from acc (block step j l) = ap (acc + j) l step /\ acc + zsum (block step j l) = view_last step (acc + j, l).
Proof.
  intros Hl. unfold block, ap, view_last. cbn [cumsum_from zsum fst snd]. split.
  - rewrite cumsum_repeat. replace (Z.to_nat l) with (S (Z.to_nat (l - 1))) by lia. reflexivity.
  - rewrite zsum_repeat, Z2Nat.id by lia. ring.
Qed.

(* jumps of the code: first = start of first row (given acc = 0), then start_next - end_prev + 1 *)
Fixpoint jumps_ok (step prev_last : Z) (js : list Z) (ne : list row) : Prop :=
  match js, ne with
  | [], [] => True
  | j :: js', r :: ne' => prev_last + j = fst r /\ jumps_ok step (view_last step r) js' ne'
  | _, _ => False
  end.

Lemma cumsum_blocks step : forall ne js acc, Forall (fun r => 1 <= snd r) ne -> jumps_ok step acc js ne ->
  cumsum_from acc (concat (map2 (block step) js (map snd ne))) = spec_indices ne step.
Proof.
  induction ne as [|r ne IH]; intros js acc Hne Hj; destruct js as [|j js]; cbn in Hj; try contradiction; [reflexivity|].
  destruct Hj as [Hj1 Hj2]. inversion Hne as [|? ? Hr Hne']; subst.
  cbn [map map2 concat]. rewrite cumsum_from_app.
  destruct (cumsum_block acc step j (snd r) Hr) as [E1 E2]. rewrite E1, E2, Hj1.
  unfold spec_indices. cbn [map concat]. f_equal.
  rewrite Hj1 in E2. change (view_last step (fst r, snd r)) with (view_last step r). now apply IH.
Qed.

(* ---------- step 4: assembling ---------- *)
Lemma zset0_scatter_comm {A} (x v : A) (b : list A) ps vs : Forall (fun p => 1 <= p) ps ->
  zset (scatter_set (x :: b) ps vs) 0 v = scatter_set (zset (x :: b) 0 v) ps vs.
Proof.
  intros Hps.
  assert (E : ps = map (Z.add (zlen [x])) (map (fun p => p - 1) ps)).
  { rewrite map_map. rewrite <- (map_id ps) at 1. apply map_ext_in. intros p Hp. unfold zlen; cbn [length]; lia. }
  assert (Hn : Forall (fun p => 0 <= p) (map (fun p => p - 1) ps)).
  { apply Forall_map. eapply Forall_impl; [|exact Hps]. cbn; intros; lia. }
  rewrite E. change (x :: b) with ([x] ++ b).
  rewrite scatter_app_shift by assumption.
  unfold zset at 2. cbn [Z.to_nat set_nat app]. change (v :: b) with ([v] ++ b).
  change (zlen [x]) with (zlen [v]).
  rewrite scatter_app_shift by assumption. reflexivity.
Qed.

Lemma map_fst_combine {A B} (a : list A) (b : list B) : length a = length b -> map fst (combine a b) = a.
Proof. revert b; induction a as [|x a IH]; intros [|y b] H; cbn in *; try discriminate; [reflexivity|]. f_equal. apply IH. lia. Qed.
Lemma map_snd_combine {A B} (a : list A) (b : list B) : length a = length b -> map snd (combine a b) = b.
Proof. revert b; induction a as [|x a IH]; intros [|y b] H; cbn in *; try discriminate; [reflexivity|]. f_equal. apply IH. lia. Qed.

Lemma map_f_snd_combine {A B C} (f : B -> C) (a : list A) (b : list B) : length a = length b ->
  map (fun t => f (snd t)) (combine a b) = map f b.
Proof. intros H. rewrite <- (map_snd_combine a b H) at 2. now rewrite map_map. Qed.

Definition code_jumps (step : Z) (ne : list row) : list Z :=
  hd 0 (map fst ne) :: map2 (fun a b => a - b + 1) (tl (map fst ne)) (removelast (map (view_end step) ne)).

Lemma jumps_tail step r ne acc : acc + (fst (hd (0,0) ne) - view_end step r + 1) = fst (hd (0,0) ne) -> acc = view_last step r.
Proof. unfold view_end. lia. Qed.

Lemma code_jumps_ok_aux step : forall ne r,
  jumps_ok step (view_last step r)
    (map2 (fun a b => a - b + 1) (map fst ne) (removelast (map (view_end step) (r :: ne)))) ne.
Proof.
  induction ne as [|r' ne IH]; intros r; [exact I|].
  cbn [map removelast map2 jumps_ok].
  destruct ne as [|r'' ne].
  - cbn. split; [unfold view_end; lia|exact I].
  - cbn [map] in *. split; [unfold view_end; lia|]. apply (IH r').
Qed.

Lemma code_jumps_ok step ne : ne <> [] -> jumps_ok step 0 (code_jumps step ne) ne.
Proof.
  destruct ne as [|r ne]; [congruence|]. intros _. unfold code_jumps. cbn [map hd tl jumps_ok].
  split; [lia|]. apply code_jumps_ok_aux.
Qed.

Lemma code_jumps_length step ne : ne <> [] -> length (code_jumps step ne) = length ne.
Proof.
  destruct ne as [|r ne]; [congruence|]. intros _. unfold code_jumps. cbn [map hd tl length]. f_equal.
  revert r; induction ne as [|r' ne IH]; intros r; [reflexivity|].
  cbn [map removelast map2 length]. destruct ne; [reflexivity|]. cbn [map] in *. f_equal. apply IH.
Qed.

Lemma all_zero_filter rows : Forall (fun r => 0 <= snd r) rows -> zsum (map snd rows) = 0 -> filter nonempty rows = [].
Proof.
  induction 1 as [|r rows Hr Hrs IH]; [reflexivity|]. cbn [map zsum filter]. intros Hs.
  assert (Hp : 0 <= zsum (map snd rows)). { apply zsum_nonneg. apply Forall_map. exact Hrs. }
  unfold nonempty. replace (snd r) with 0 by lia. cbn. apply IH. lia.
Qed.

Lemma filter_nonempty_pos rows : Forall (fun r => 0 <= snd r) rows -> Forall (fun r => 1 <= snd r) (filter nonempty rows).
Proof.
  induction 1 as [|r rows Hr _ IH]; [constructor|]. cbn [filter]. destruct (nonempty r) eqn:E; [|exact IH].
  constructor; [|exact IH]. unfold nonempty in E. apply negb_true_iff, Z.eqb_neq in E. lia.
Qed.

Theorem build_indices_correct rows step : Forall (fun r => 0 <= snd r) rows ->
  build_indices rows step = spec_indices rows step.
Proof.
  intros Hnn. unfold build_indices. rewrite (spec_filter rows step Hnn).
  destruct (zsum (map snd rows) =? 0) eqn:Ez.
  - apply Z.eqb_eq in Ez. now rewrite (all_zero_filter rows Hnn Ez).
  - apply Z.eqb_neq in Ez. unfold excl_prefix. rewrite tagged_filter.
    pose proof (filter_nonempty_pos rows Hnn) as Hpos.
    rewrite (zsum_filter rows) in *. set (ne := filter nonempty rows) in *.
    assert (Hne : ne <> []) by (intros E; rewrite E in Ez; cbn in Ez; lia).
    assert (Hlen : length (excl_from 0 (map snd ne)) = length ne) by (rewrite excl_from_length; apply map_length).
    rewrite (map_fst_combine _ _ Hlen).
    rewrite !(map_f_snd_combine _ _ _ Hlen).
    assert (Hl1 : Forall (fun l => 1 <= l) (map snd ne)) by (apply Forall_map; exact Hpos).
    assert (Hs : 0 <= zsum (map snd ne)) by (apply zsum_nonneg; eapply Forall_impl; [|exact Hl1]; cbn; intros; lia).
    (* b0 is non-empty *)
    replace (Z.to_nat (zsum (map snd ne) + 1)) with (S (Z.to_nat (zsum (map snd ne)))) by lia.
    cbn [repeat].
    (* positions of tl are >= 1 *)
    assert (Htl : Forall (fun p => 1 <= p) (tl (excl_from 0 (map snd ne)))).
    { destruct ne as [|r ne']; [congruence|]. cbn [map excl_from tl]. inversion Hl1; subst.
      eapply Forall_impl; [|apply (excl_ge (0 + snd r))]; [cbn; intros; lia|].
      eapply Forall_impl; [|exact H2]. cbn; intros; lia. }
    rewrite zset0_scatter_comm by exact Htl.
    (* now it is a scatter of the full position list with code_jumps *)
    match goal with |- removelast (cumsum ?X) = _ =>
      replace X with (scatter_set (repeat step (Z.to_nat (zsum (map snd ne) + 1))) (excl_prefix (map snd ne)) (code_jumps step ne)) end.
    2:{ unfold code_jumps, excl_prefix. clear Htl Hlen. destruct ne as [|r ne']; [congruence|].
        cbn [map excl_from tl hd scatter_set].
        replace (Z.to_nat (zsum (snd r :: map snd ne') + 1)) with (S (Z.to_nat (zsum (snd r :: map snd ne')))) by (cbn [map] in Hs; lia).
        reflexivity. }
    rewrite scatter_blocks by (try assumption; rewrite code_jumps_length by assumption; now rewrite map_length).
    unfold cumsum. rewrite cumsum_from_app. cbn [cumsum_from]. rewrite removelast_last.
    apply cumsum_blocks; [exact Hpos|]. apply code_jumps_ok; assumption.
Qed.
Print Assumptions build_indices_correct.
