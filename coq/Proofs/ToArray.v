From Coq Require Import ZifyBool.
From NPS Require Import ListAux PySlice NumpySem Scatter BuildIdx XorBroadcast XorProof Denote RLE RLEOps SetItem.
Open Scope Z_scope.

(* C14: RunLengthArray.to_array — XOR of neighbouring run values scattered at the run starts, then prefix-XOR —
   decodes a canonical run-length array to concat (map2 repeat values run_lengths) *)
Section TA.
Variable G : Type.
Variable zero : G.
Variable xor : G -> G -> G.
Hypothesis xor_assoc : forall a b c, xor a (xor b c) = xor (xor a b) c.
Hypothesis xor_comm : forall a b, xor a b = xor b a.
Hypothesis xor_nilp : forall a, xor a a = zero.
Hypothesis xor_zero_l : forall a, xor zero a = a.

Notation pxor_from := (pxor_from G xor).

Lemma xor_zero_r a : xor a zero = a. Proof. now rewrite xor_comm. Qed.
Lemma xor_cancel a b : xor a (xor a b) = b. Proof. now rewrite xor_assoc, xor_nilp. Qed.

(* prefix-xor over blocks: jump then zeros *)
Lemma pxor_zeros acc n : pxor_from acc (repeat zero n) = repeat acc n.
Proof. induction n as [|n IH]; cbn; [reflexivity|]. now rewrite xor_zero_r, IH. Qed.
Lemma pxor_app acc a b : pxor_from acc (a ++ b) = pxor_from acc a ++ pxor_from (fold_left xor a acc) b.
Proof. revert acc; induction a as [|x a IH]; intros acc; cbn; [reflexivity|]. now rewrite IH. Qed.
Lemma fold_zeros acc n : fold_left xor (repeat zero n) acc = acc.
Proof. induction n as [|n IH]; cbn; [reflexivity|]. now rewrite xor_zero_r. Qed.

Definition gblock (j : G) (l : Z) : list G := j :: repeat zero (Z.to_nat (l - 1)).
Lemma gblock_zlen j l : 1 <= l -> zlen (gblock j l) = l.
Proof. intros. unfold zlen, gblock. cbn [length]. rewrite repeat_length. lia. Qed.

(* jumps: first value, then xor of neighbours *)
Fixpoint jumps_ok (acc : G) (js vs : list G) : Prop :=
  match js, vs with
  | [], [] => True
  | j :: js', v :: vs' => xor acc j = v /\ jumps_ok v js' vs'
  | _, _ => False
  end.

Lemma pxor_blocks : forall ls js vs acc, Forall (fun l => 1 <= l) ls -> length vs = length ls -> jumps_ok acc js vs ->
  pxor_from acc (concat (map2 gblock js ls)) = spec_broadcast G vs ls.
Proof.
  induction ls as [|l ls IH]; intros js vs acc Hl Hlen Hj.
  - destruct vs; [|discriminate]. destruct js; [reflexivity|contradiction].
  - inversion Hl as [|? ? Hl1 Hl']; subst.
    destruct vs as [|v vs]; [discriminate|]. destruct js as [|j js]; [contradiction|]. destruct Hj as [Hj1 Hj2].
    cbn [map2 concat]. rewrite pxor_app. unfold gblock at 1. cbn [XorBroadcast.pxor_from].
    rewrite Hj1, pxor_zeros. unfold spec_broadcast. cbn [map2 concat].
    replace (Z.to_nat l) with (S (Z.to_nat (l - 1))) by lia. cbn [repeat app]. f_equal. f_equal.
    fold (spec_broadcast G vs ls). unfold gblock. cbn [fold_left]. rewrite Hj1, fold_zeros. apply IH; auto.
Qed.

(* the scatter of to_array, as blocks *)
Lemma gscatter_blocks ls js : Forall (fun l => 1 <= l) ls -> length js = length ls ->
  scatter_set (repeat zero (Z.to_nat (zsum ls))) (excl_prefix ls) js = concat (map2 gblock js ls).
Proof.
  intros H; revert js; induction H as [|l ls Hl Hls IH]; intros js Hlen.
  - destruct js; [reflexivity|discriminate].
  - destruct js as [|j js]; [discriminate|]. injection Hlen as Hlen.
    assert (Hn : all_nonneg ls) by (eapply Forall_impl; [|exact Hls]; cbn; intros; lia).
    pose proof (zsum_nonneg ls Hn) as Hs.
    rewrite excl_cons. cbn [scatter_set map2 concat zsum].
    replace (Z.to_nat (l + zsum ls)) with (S (Z.to_nat (l - 1)) + Z.to_nat (zsum ls))%nat by lia.
    rewrite repeat_split. cbn [repeat app]. unfold zset at 1. cbn [Z.to_nat set_nat].
    change (j :: repeat zero (Z.to_nat (l - 1)) ++ repeat zero (Z.to_nat (zsum ls)))
      with (gblock j l ++ repeat zero (Z.to_nat (zsum ls))).
    rewrite <- (gblock_zlen j l Hl) at 2.
    rewrite scatter_app_shift by (apply excl_nonneg; [lia|assumption]).
    now rewrite IH.
Qed.

Lemma removelast_cons_length {X} (x : X) l : length (removelast (x :: l)) = length l.
Proof. revert x; induction l as [|y l IH]; intros x; [reflexivity|]. cbn [removelast length] in *. f_equal. apply IH. Qed.

Lemma diffs_jumps : forall vs' v, jumps_ok v (map2 xor (removelast (v :: vs')) vs') vs'.
Proof.
  induction vs' as [|w vs'' IH]; intros v; [exact I|].
  change (removelast (v :: w :: vs'')) with (v :: removelast (w :: vs'')). cbn [map2 jumps_ok].
  split; [apply xor_cancel|apply IH].
Qed.

(* the model's to_array on a canonical run-length array given by its run lengths *)
Theorem to_array_correct (vs : list G) (ls : list Z) : Forall (fun l => 1 <= l) ls -> length vs = length ls -> ls <> [] ->
  to_array G zero xor (excl_prefix ls ++ [zsum ls], vs) = spec_broadcast G vs ls.
Proof.
  intros Hl Hlen Hne.
  assert (Hn : all_nonneg ls) by (eapply Forall_impl; [|exact Hl]; cbn; intros; lia).
  destruct ls as [|l0 ls']; [congruence|]. destruct vs as [|v0 vs']; [discriminate|]. injection Hlen as Hlen.
  inversion Hl as [|? ? Hl0 Hl']; subst. inversion Hn as [|? ? _ Hn']; subst. pose proof (zsum_nonneg ls' Hn') as Hs'.
  assert (Hpos : 0 < zsum (l0 :: ls')) by (cbn [zsum]; lia).
  unfold to_array.
  assert (Hrl : rl_len (excl_prefix (l0 :: ls') ++ [zsum (l0 :: ls')], v0 :: vs') = zsum (l0 :: ls')).
  { unfold rl_len. cbn [fst]. rewrite excl_cons. cbn [app tl].
    destruct (map (Z.add l0) (excl_prefix ls') ++ [zsum (l0 :: ls')]) eqn:E; [destruct (map _ _); discriminate|].
    rewrite <- E. change (0 :: map (Z.add l0) (excl_prefix ls') ++ [zsum (l0 :: ls')]) with ((0 :: map (Z.add l0) (excl_prefix ls')) ++ [zsum (l0 :: ls')]).
    apply last_last. }
  rewrite Hrl. replace (zsum (l0 :: ls') =? 0) with false by lia. rewrite removelast_last.
  rewrite excl_cons. cbn [tl hd].
  set (diffs := map2 xor (removelast (v0 :: vs')) vs').
  assert (Hdl : length diffs = length ls') by (unfold diffs; rewrite map2_length; rewrite removelast_cons_length; lia).
  replace (Z.to_nat (zsum (l0 :: ls'))) with (S (Z.to_nat (zsum (l0 :: ls') - 1))) by lia. cbn [repeat].
  rewrite zset0_scatter_comm.
  2:{ apply Forall_map. eapply Forall_impl; [|apply (excl_nonneg 0 ls'); [lia|assumption]]. cbn; intros; lia. }
  assert (E : scatter_set (zset (zero :: repeat zero (Z.to_nat (zsum (l0 :: ls') - 1))) 0 v0) (map (Z.add l0) (excl_prefix ls')) diffs
              = scatter_set (repeat zero (Z.to_nat (zsum (l0 :: ls')))) (excl_prefix (l0 :: ls')) (v0 :: diffs)).
  { rewrite excl_cons. cbn [scatter_set]. replace (Z.to_nat (zsum (l0 :: ls'))) with (S (Z.to_nat (zsum (l0 :: ls') - 1))) by lia. reflexivity. }
  rewrite E, gscatter_blocks by (auto; cbn [length]; lia).
  unfold XorBroadcast.prefix_xor. apply pxor_blocks; [assumption|cbn [length]; lia|].
  cbn [jumps_ok]. split; [apply xor_zero_l|apply diffs_jumps].
Qed.
End TA.
Print Assumptions to_array_correct.
