From Coq Require Import ZifyBool.
From NPS Require Import ListAux PySlice NumpySem Scatter BuildIdx XorBroadcast RLE RLEProof RLEOps RLEMisc RLEReduce RLE2d RL2Proof RL2RowAgg GetSlice RLEIndex2 RaOps RoundTrip.
Open Scope Z_scope.

(* C17: any / all / mean along the rows, computed on the run values (and the last boundary), equal the same aggregates of the decoded rows.
   One statement for both variants: a row is well formed when, with the closing boundary of the matrix variant appended, every run is
   non-empty and there is one value per run. *)
Definition row_runs_ok (x : rl2) (p : list Z * list Z) : Prop :=
  let r := row_rla x (fst p) (snd p) in Forall (fun l => 1 <= l) (diffs (fst r)) /\ length (snd r) = length (diffs (fst r)).

Lemma row_rla_snd x ev vs : snd (row_rla x ev vs) = vs.
Proof. unfold row_rla. destruct (r_len x); reflexivity. Qed.

Lemma map_combine_snd {X Y W} (h : Y -> W) : forall (a : list X) (b : list Y), length a = length b -> map h b = map (fun p => h (snd p)) (combine a b).
Proof. induction a as [|x a IH]; intros [|y b] H; try discriminate; [reflexivity|]. cbn [map combine snd]. f_equal. apply IH. now injection H. Qed.

Theorem rl2_any_rows_correct (x : rl2) : length (r_idx x) = length (r_val x) -> Forall (row_runs_ok x) (rows_of2 x) ->
  rl2_any_rows x = map (existsb nz) (rl2_decode x).
Proof.
  intros Hlen Hw. rewrite decode_rows, map_map. unfold rl2_any_rows, rows_of2 in *. rewrite (map_combine_snd (existsb nz) (r_idx x) (r_val x) Hlen).
  apply map_ext_in. intros [ev vs] Hp. rewrite Forall_forall in Hw. destruct (Hw _ Hp) as [H1 H2]. cbn [fst snd] in *.
  unfold dec_row, decode. cbn [fst snd]. rewrite row_rla_snd in *. symmetry. now apply existsb_broadcast.
Qed.
Theorem rl2_all_rows_correct (x : rl2) : length (r_idx x) = length (r_val x) -> Forall (row_runs_ok x) (rows_of2 x) ->
  rl2_all_rows x = map (forallb nz) (rl2_decode x).
Proof.
  intros Hlen Hw. rewrite decode_rows, map_map. unfold rl2_all_rows, rows_of2 in *. rewrite (map_combine_snd (forallb nz) (r_idx x) (r_val x) Hlen).
  apply map_ext_in. intros [ev vs] Hp. rewrite Forall_forall in Hw. destruct (Hw _ Hp) as [H1 H2]. cbn [fst snd] in *.
  unfold dec_row, decode. cbn [fst snd]. rewrite row_rla_snd in *. symmetry. now apply forallb_broadcast.
Qed.
Print Assumptions rl2_any_rows_correct.
Print Assumptions rl2_all_rows_correct.

(* mean(axis=-1) of the ragged variant: row sum and row length (the last boundary; rows start at boundary 0) are those of the decoded row *)
Theorem rl2_mean_rows_correct {C} (dv : Z -> Z -> C) (x : rl2) : r_len x = None -> length (r_idx x) = length (r_val x) ->
  Forall (fun p => row_runs_ok x p /\ hd 0 (fst p) = 0 /\ fst p <> []) (rows_of2 x) ->
  rl2_mean_rows dv x = map (fun d => dv (zsum d) (zlen d)) (rl2_decode x).
Proof.
  intros Hn Hlen Hw. unfold rl2_mean_rows, rl2_row_lens. rewrite Hn.
  assert (Hwf : Forall row_wf (rows_of2 x)).
  { eapply Forall_impl; [|exact Hw]. intros [ev vs] [[H1 H2] _]. unfold row_rla in *. rewrite Hn in *. cbn [fst snd] in *. split; [|exact H2].
    eapply Forall_impl; [|exact H1]. cbn; intros; lia. }
  rewrite (rl2_sum_correct x Hn Hwf). rewrite decode_rows, !map_map. clear Hwf.
  assert (E : map (fun ev => last ev 0) (r_idx x) = map (fun p => zlen (dec_row x p)) (rows_of2 x)).
  { unfold rows_of2 in *. revert Hlen Hw. generalize (r_val x) as V. induction (r_idx x) as [|ev I IH]; intros [|vs V] Hlen Hw; try discriminate; [reflexivity|].
    cbn [map combine] in *. inversion Hw as [|? ? Hp Hw']; subst. f_equal; [|apply IH; [cbn [length] in Hlen; lia|exact Hw']].
    destruct Hp as [[H1 H2] [Hhd Hne]]. unfold dec_row, row_rla in *. rewrite Hn in *. cbn [fst snd] in *. unfold decode. cbn [fst snd].
    rewrite spec_broadcast_length; [|eapply Forall_impl; [|exact H1]; cbn; intros; lia|exact H2].
    destruct ev as [|e0 ev']; [congruence|]. cbn [hd] in Hhd. subst e0. rewrite (zsum_diffs Z 0 Z.eqb (fun a b H => proj1 (Z.eqb_eq a b) H)). lia. }
  rewrite E. rewrite BinaryProof.map2_maps. reflexivity.
Qed.
Print Assumptions rl2_mean_rows_correct.

(* not vacuous *)
Example row_agg_example :
  let x := from_ragged [[5; 5; 7]; [0]; [0; 2; 3; 3]] in
  rl2_any_rows x = [true; false; true] /\ rl2_all_rows x = [true; false; false] /\ rl2_mean_rows pair x = [(17, 3); (0, 1); (8, 4)].
Proof. vm_compute. repeat split. Qed.

Lemma combine_map_both {X Y W} (f : X -> Y) (g : X -> W) (l : list X) : combine (map f l) (map g l) = map (fun a => (f a, g a)) l.
Proof. induction l as [|a l IH]; [reflexivity|]. cbn [map combine]. now rewrite IH. Qed.

(* every array the ragged encoder builds meets the hypotheses: the three aggregates of from_ragged rows are those of the rows themselves *)
Lemma from_ragged_rows_ok (rows : list (list Z)) : Forall (fun r => r <> []) rows ->
  Forall (fun p => row_runs_ok (from_ragged rows) p /\ hd 0 (fst p) = 0 /\ fst p <> []) (rows_of2 (from_ragged rows)).
Proof.
  intros Hne. unfold rows_of2, row_runs_ok, row_rla, from_ragged. cbn [r_idx r_val r_len]. rewrite combine_map_both.
  apply Forall_map. eapply Forall_impl; [|exact Hne]. intros [|x xs] Hr; [congruence|]. cbn [fst snd].
  assert (Hm : forall y ys, change_mask (Some y) ys = nmask Z (fun a b => negb (a =? b)) y ys).
  { intros y ys; revert y; induction ys as [|z ys IHy]; intros y; [reflexivity|]. cbn [change_mask nmask]. now rewrite IHy. }
  unfold run_starts, flatnonzero. cbn [change_mask fnz_from]. rewrite Hm. replace (0 + 1) with 1 by lia.
  assert (Hneq : forall a b : Z, negb (a =? b) = false -> a = b) by (intros; lia).
  pose proof (from_array_canonical Z 0 (fun a b => negb (a =? b)) (x :: xs) ltac:(congruence)) as Hc. cbv zeta in Hc.
  rewrite (from_array_cons Z 0 (fun a b => negb (a =? b))) in Hc. cbn [fst snd] in Hc. destruct Hc as (_ & _ & Hs & Hl).
  set (T := fnz_from 1 (nmask Z (fun a b => negb (a =? b)) x xs)) in *.
  replace (zlen (x :: xs)) with (1 + zlen xs) by (unfold zlen; cbn [length]; lia).
  change ((0 :: T) ++ [1 + zlen xs]) with (0 :: T ++ [1 + zlen xs]).
  destruct (RoundTrip.strict_diffs (T ++ [1 + zlen xs]) 0 Hs ltac:(destruct T; discriminate)) as (D1 & _ & _ & D4).
  repeat split; [exact D1| |discriminate].
  rewrite D4. cbn [length map] in *. rewrite ?app_length, ?map_length in *. cbn [length] in *. lia.
Qed.

Theorem ragged_row_aggregates {C} (dv : Z -> Z -> C) (rows : list (list Z)) : Forall (fun r => r <> []) rows ->
  let x := from_ragged rows in
  rl2_any_rows x = map (existsb nz) rows /\ rl2_all_rows x = map (forallb nz) rows /\ rl2_mean_rows dv x = map (fun d => dv (zsum d) (zlen d)) rows.
Proof.
  intros Hne x. pose proof (from_ragged_rows_ok rows Hne) as Hok. fold x in Hok.
  assert (Hlen : length (r_idx x) = length (r_val x)) by (unfold x, from_ragged; cbn [r_idx r_val]; now rewrite !map_length).
  assert (Hok1 : Forall (row_runs_ok x) (rows_of2 x)) by (eapply Forall_impl; [|exact Hok]; cbn; intros p [H _]; exact H).
  rewrite (rl2_any_rows_correct x Hlen Hok1), (rl2_all_rows_correct x Hlen Hok1), (rl2_mean_rows_correct dv x eq_refl Hlen Hok).
  unfold x. now rewrite (from_ragged_decode rows Hne).
Qed.
Print Assumptions ragged_row_aggregates.
