(* C03 — property theorems only: each restates the full statement and is closed by the lemma proved in Proofs/. *)
From Coq Require Import ZArith List Bool.
From NPS Require Import ListAux PySlice NumpySem Scatter BuildIdx XorBroadcast View Index Assign Reduce Scan RaOps Heap Hash HashRun BitArr RLE RLEOps RLE2d DataClass RowsSpec AssignSpec MapSpec Denote SetItem.
Import ListNotations.
Open Scope Z_scope.

Theorem C03_setitem_correct :
  forall (A : Type) (dflt : A) (xor : A -> A -> A),
       (forall a b c : A, xor a (xor b c) = xor (xor a b) c) ->
       (forall a b : A, xor a b = xor b a) ->
       (forall a : A, xor a a = dflt) ->
       (forall a : A, xor dflt a = a) ->
       forall (a : ra A) (idx : index) (v : value A),
       WF A a ->
       GetItem.index_ok A (denote A dflt a) idx ->
       rbind (setitem A dflt xor a idx v) rows_of = spec_setitem (denote A dflt a) idx v.
Proof. exact setitem_correct. Qed.
Print Assumptions C03_setitem_correct.
