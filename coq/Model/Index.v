From NPS Require Import ListAux PySlice NumpySem Scatter BuildIdx View RLE.
Open Scope Z_scope.

Inductive colsel := CInt (j : Z) | CSlice (s : pyslice) | CAll | CList (l : list Z).
Inductive rsel := ROne (i : Z) | RMany (s : rowsel).
Inductive index :=
| IRow (r : rsel)
| IRowCol (r : rsel) (c : colsel)
| IMask (m : list (list bool))
| IEmpty.                                   (* a[()] *)

Record ra (A : Type) := { ra_data : list A ; ra_geom : geom }.
Arguments ra_data {A}. Arguments ra_geom {A}.

Definition all_slice : pyslice := {| sl_start := None; sl_stop := None; sl_step := None |}.

(* RaggedBase._flatten_myself / ravel *)
Definition materialise {A} (a : ra A) : res (ra A) :=
  match ra_geom a with
  | GContig _ => Ok a
  | g => rmap (fun d => {| ra_data := d ; ra_geom := contig_of_lengths (g_lengths g) |})
              (np_take (ra_data a) (flat_indices g))
  end.

(* self._shape.view(rows) for multi-row selectors *)
Definition select_rows_geom (g : geom) (s : rowsel) : res geom :=
  match g with
  | GContig rows | GRows rows => rmap GRows (sel_rows s rows)
  | GView2 rows c => rmap (fun r => GView2 r c) (sel_rows s rows)
  end.
(* self._shape.view_rows(rows) : always a RaggedView2 *)
Definition view_rows_geom (g : geom) (s : rsel) : res (list row * Z) :=
  let c := g_step g in
  match s with
  | ROne i => rmap (fun r => ([r], c)) (np_item (g_rows g) i)
  | RMany s => rmap (fun r => (r, c)) (sel_rows s (g_rows g))
  end.

Inductive gres (A : Type) :=
| GScalar (a : A) | GFlat (l : list A) | GLazy (a : ra A) | GWhole (a : ra A).
Arguments GScalar {A}. Arguments GFlat {A}. Arguments GLazy {A}. Arguments GWhole {A}.

(* IndexableArray._get_element, incl. repairs F2 and F5b; rows/cols already broadcast to pairs *)
Definition element_flat (rows : list row) (i j : Z) : res Z :=
  let n := zlen rows in
  if i >=? n then Refused else
  match np_item rows i with
  | Refused => Refused
  | Ok (s, L) => if (j >=? L) || (j <? - L) then Refused else Ok (s + (if j <? 0 then L + j else j))
  end.
Definition element_pairs (r : rsel) (c : colsel) : option (list (Z * Z) * bool) :=   (* pairs, is_scalar *)
  match r, c with
  | ROne i, CInt j => Some ([(i, j)], true)
  | ROne i, CList js => Some (map (fun j => (i, j)) js, false)
  | RMany (RList is_), CInt j => Some (map (fun i => (i, j)) is_, false)
  | RMany (RList is_), CList js => if Nat.eqb (length is_) (length js) then Some (combine is_ js, false) else None
  | _, _ => None
  end.
(* safe-mode guard is evaluated on the whole arrays before any data access *)
Definition get_elements {A} (a : ra A) (pairs : list (Z * Z)) : res (list A) :=
  rbind (materialise a) (fun a' =>
  rbind (rsequence (map (fun p => element_flat (g_rows (ra_geom a')) (fst p) (snd p)) pairs)) (fun flat =>
  np_take (ra_data a') flat)).

Definition is_int_typed (r : rsel) (c : colsel) : bool :=
  match r, c with
  | (ROne _ | RMany (RList _)), (CInt _ | CList _) => true
  | _, _ => false
  end.

Definition getitem {A} (a : ra A) (idx : index) : res (gres A) :=
  match idx with
  | IEmpty | IRow (RMany RAll) => rmap GWhole (materialise a)
  | IRow (ROne i) =>
      rbind (materialise a) (fun a' =>
      rmap (fun r : row => GFlat (ztake (snd r) (zdrop (fst r) (ra_data a')))) (np_item (g_rows (ra_geom a')) i))
  | IRow (RMany s) => rmap (fun g => GLazy {| ra_data := ra_data a ; ra_geom := g |}) (select_rows_geom (ra_geom a) s)
  | IMask m =>
      rbind (materialise a) (fun a' => rmap GFlat (np_take (ra_data a') (flatnonzero (concat m))))
  | IRowCol r c =>
      if is_int_typed r c then
        match element_pairs r c with
        | None => Refused
        | Some (pairs, is_scalar) =>
            rbind (get_elements a pairs) (fun l =>
            if is_scalar then match l with [x] => Ok (GScalar x) | _ => Refused end else Ok (GFlat l))
        end
      else
        let r' := match r with RMany RAll => RMany (RSlice all_slice) | _ => r end in
        rbind (view_rows_geom (ra_geom a) r') (fun rc =>
        let '(rows, cs) := rc in
        let g2 := match c with
                  | CInt j => col_slice_int rows cs j
                  | CSlice sl => col_slice_sl rows cs sl
                  | CAll => col_slice_sl rows cs all_slice
                  | CList _ => Refused
                  end in
        rbind g2 (fun g2 =>
        match r, c with
        | RMany _, (CSlice _ | CAll) => Ok (GLazy {| ra_data := ra_data a ; ra_geom := g2 |})
        | _, _ => rmap GFlat (np_take (ra_data a) (flat_indices g2))
        end))
  end.

(* what the user observes *)
Inductive result (A : Type) := RScalar (a : A) | RFlat (l : list A) | RRagged (r : list (list A)).
Arguments RScalar {A}. Arguments RFlat {A}. Arguments RRagged {A}.

Definition rows_of {A} (a : ra A) : res (list (list A)) :=
  rmap (fun a' => segments (ra_data a') (g_lengths (ra_geom a'))) (materialise a).

Definition observe {A} (g : gres A) : res (result A) :=
  match g with
  | GScalar x => Ok (RScalar x)
  | GFlat l => Ok (RFlat l)
  | GLazy a | GWhole a => rmap RRagged (rows_of a)
  end.

Definition ra_of_rows {A} (r : list (list A)) : ra A :=
  {| ra_data := concat r ; ra_geom := contig_of_lengths (map zlen r) |}.
