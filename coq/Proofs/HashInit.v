From Coq Require Import ZifyBool.
From NPS Require Import ListAux PySlice NumpySem BuildIdx RLE Hash MapSpec Denote SetItem SliceAP HashProof.
Open Scope Z_scope.

(* C11: the constructor establishes the invariant for every key set and every modulus *)
Section HI.
Variable V : Type.
Variable dv : V.
Notation aget := (aget V).

Lemma aget_in (d : list (Z * V)) k v : NoDup (map fst d) -> In (k, v) d -> aget d k = Some v.
Proof.
  induction d as [|[k' v'] d IH]; intros Hnd Hin; [contradiction|]. cbn [map fst] in Hnd. inversion Hnd as [|? ? Hx Hnd']; subst.
  cbn [MapSpec.aget]. destruct Hin as [E|Hin].
  - injection E as -> ->. now rewrite Z.eqb_refl.
  - destruct (k' =? k) eqn:E; [|now apply IH]. assert (k' = k) by lia. subst k'. exfalso. apply Hx.
    apply in_map_iff. exists (k, v). split; [reflexivity|assumption].
Qed.
Lemma aget_some_in (d : list (Z * V)) k : aget d k <> None <-> In k (map fst d).
Proof.
  induction d as [|[k' v'] d IH]; cbn [MapSpec.aget map fst]; [split; [congruence|contradiction]|].
  destruct (k' =? k) eqn:E.
  - split; [intros _; left; lia|congruence].
  - rewrite IH. split; [now right|intros [C|C]; [lia|assumption]].
Qed.

Lemma nth_ap_map {X} (f : Z -> X) (dx : X) m h : 0 <= h < m -> nth (Z.to_nat h) (map f (ap 0 m 1)) dx = f h.
Proof.
  intros H. rewrite (nth_indep _ dx (f 0)) by (rewrite map_length; unfold ap; rewrite ap_nat_length; lia).
  rewrite map_nth. f_equal. unfold ap. rewrite ap_nat_nth by lia. lia.
Qed.

Lemma in_bucket_of {X} m (kx : list (Z * X)) h p : In p (bucket_of m kx h) <-> In p kx /\ hash m (fst p) = h.
Proof. unfold bucket_of. rewrite filter_In. split; intros [H1 H2]; split; auto; lia. Qed.

Lemma NoDup_app_intro {X} (a b : list X) : NoDup a -> NoDup b -> (forall x, In x a -> ~ In x b) -> NoDup (a ++ b).
Proof.
  intros Ha Hb Hd. induction Ha as [|x a Hx Ha IH]; [exact Hb|]. cbn [app]. constructor.
  - intros C. apply in_app_or in C. destruct C as [C|C]; [contradiction|]. apply (Hd x); [now left|assumption].
  - apply IH. intros y Hy. apply Hd. now right.
Qed.

Lemma NoDup_map_filter {X} (P : Z * X -> bool) (kx : list (Z * X)) : NoDup (map fst kx) -> NoDup (map fst (filter P kx)).
Proof.
  induction kx as [|p kx IH]; intros Hnd; [constructor|]. cbn [map] in Hnd. inversion Hnd as [|? ? Hx Hnd']; subst.
  cbn [filter]. destruct (P p); [|auto]. cbn [map]. constructor; [|auto].
  intros C. apply Hx. apply in_map_iff in C. destruct C as (q & Eq & Hq). apply filter_In in Hq. apply in_map_iff. exists q. tauto.
Qed.

(* all buckets together contain every key once *)
Lemma NoDup_buckets {X} m (kx : list (Z * X)) : NoDup (map fst kx) ->
  forall hs, NoDup hs -> NoDup (concat (map (fun h => map fst (bucket_of m kx h)) hs)).
Proof.
  intros Hnd hs Hhs. induction Hhs as [|h hs Hh Hhs IH]; [constructor|]. cbn [map concat].
  apply NoDup_app_intro; [now apply NoDup_map_filter|exact IH|].
  intros k Hk C. apply in_map_iff in Hk. destruct Hk as (p & <- & Hp). apply in_bucket_of in Hp. destruct Hp as [_ Hp].
  apply in_concat in C. destruct C as (b & Hb & Hkb). apply in_map_iff in Hb. destruct Hb as (h' & <- & Hh').
  apply in_map_iff in Hkb. destruct Hkb as (q & Eq & Hq). apply in_bucket_of in Hq. destruct Hq as [_ Hq].
  rewrite Eq in Hq. rewrite Hp in Hq. subst h'. contradiction.
Qed.

Lemma NoDup_ap m : NoDup (ap 0 m 1).
Proof.
  unfold ap. generalize 0 as s. induction (Z.to_nat m) as [|n IH]; intros s; cbn; constructor; [|apply IH].
  intros C. assert (F : Forall (fun p => s + 1 <= p) (ap_nat (s + 1) 1 n)).
  { apply (Denote.ap_nat_forall (fun p => s + 1 <= p)). intros; lia. }
  rewrite Forall_forall in F. specialize (F s C). lia.
Qed.
Lemma In_ap m h : In h (ap 0 m 1) <-> 0 <= h < m.
Proof.
  unfold ap. split.
  - intros H. apply In_nth with (d := 0) in H. destruct H as (k & Hk & E). rewrite ap_nat_length in Hk.
    rewrite ap_nat_nth in E by assumption. lia.
  - intros H. replace h with (0 + Z.of_nat (Z.to_nat h) * 1) by lia. rewrite <- (ap_nat_nth 0 1 (Z.to_nat m) (Z.to_nat h) 0) by lia.
    apply nth_In. rewrite ap_nat_length. lia.
Qed.

Theorem Inv_mk (keys : list Z) (vals : list V) m t : NoDup keys ->
  mk V keys vals m = Ok t -> Inv V dv t (combine keys vals).
Proof.
  intros Hnd Hmk. unfold mk in Hmk.
  destruct ((m <=? 0) || negb (Nat.eqb (length keys) (length vals))) eqn:G; [discriminate|]. injection Hmk as <-.
  assert (Hm : 0 < m) by lia. assert (Hlen : length keys = length vals) by (apply Nat.eqb_eq; lia).
  set (kx := combine keys vals). assert (Hfst : map fst kx = keys) by (apply map_fst_combine; exact Hlen).
  assert (Hndk : NoDup (map fst kx)) by now rewrite Hfst.
  assert (HK : map (map fst) (buckets m kx) = map (fun h => map fst (bucket_of m kx h)) (ap 0 m 1)) by (unfold buckets; now rewrite map_map).
  assert (Hconcat : forall k, In k (concat (map (map fst) (buckets m kx))) <-> In k keys).
  { intros k. rewrite HK. split.
    - intros C. apply in_concat in C. destruct C as (b & Hb & Hkb). apply in_map_iff in Hb. destruct Hb as (h & <- & _).
      apply in_map_iff in Hkb. destruct Hkb as (p & <- & Hp). apply in_bucket_of in Hp. rewrite <- Hfst. apply in_map. tauto.
    - intros Hk. rewrite <- Hfst in Hk. apply in_map_iff in Hk. destruct Hk as (p & <- & Hp).
      apply in_concat. exists (map fst (bucket_of m kx (hash m (fst p)))). split.
      + apply in_map_iff. exists (hash m (fst p)). split; [reflexivity|]. apply In_ap. now apply hash_range.
      + apply in_map. apply in_bucket_of. tauto. }
  split; cbn [t_mod t_keys t_vals].
  - (* bucket_ok *)
    unfold bucket_ok. cbn [t_mod t_keys t_vals]. split; [exact Hm|]. split; [unfold zlen, buckets; rewrite !map_length; unfold ap; rewrite ap_nat_length; lia|].
    split; [rewrite HK; apply NoDup_buckets; [exact Hndk|apply NoDup_ap]|].
    intros h k Hh. rewrite Hconcat. rewrite HK, (nth_ap_map _ [] m h Hh). split.
    + intros C. apply in_map_iff in C. destruct C as (p & <- & Hp). apply in_bucket_of in Hp. split; [rewrite <- Hfst; apply in_map; tauto|tauto].
    + intros [Hk Hhash]. rewrite <- Hfst in Hk. apply in_map_iff in Hk. destruct Hk as (p & <- & Hp). apply in_map. apply in_bucket_of. tauto.
  - (* vals_ok *)
    unfold vals_ok. cbn [t_mod t_keys t_vals]. split.
    + intros k. rewrite Hconcat, aget_some_in. now rewrite Hfst.
    + split; [rewrite !map_map; apply map_ext; intros b; now rewrite !map_length|].
      intros h j k Hh Hj Hnth. rewrite HK, (nth_ap_map _ [] m h Hh) in Hnth.
      rewrite nth_error_map in Hnth. destruct (nth_error (bucket_of m kx h) (Z.to_nat j)) as [[k' v']|] eqn:E; [|discriminate].
      cbn [option_map fst] in Hnth. injection Hnth as ->.
      assert (Hin : In (k, v') kx) by (apply nth_error_In in E; apply in_bucket_of in E; tauto).
      rewrite (aget_in kx k v' Hndk Hin). f_equal. unfold cell. cbn [fst snd].
      unfold buckets. rewrite map_map, (nth_ap_map _ [] m h Hh).
      rewrite (nth_indep _ dv (snd (k, v'))) by (rewrite map_length; apply nth_error_Some; congruence).
      rewrite map_nth. apply nth_error_nth with (d := (k, v')) in E. now rewrite E.
Qed.
End HI.
Print Assumptions Inv_mk.
