"""C11 — HashTable is a dictionary over a fixed set of integer keys (histories)."""
from harness import fam_hash
TRUSTED = fam_hash.TRUSTED
ASSUME = ["keys are unique (the constructor's precondition) and |key| <= 2**62"]
RULE = "HashTable histories; " + fam_hash.RULE
def run(R, tier, rng): fam_hash.run_family(R, tier, rng, counter=False)
