open Oracle_core
(* value syntax:  v ::= int | N | [ v* ]   ; one case per line:  opname v* ;  reply: v *)
type v = I of z | N | L of v list
let rec pos_of_int n = if n = 1 then XH else if n land 1 = 0 then XO (pos_of_int (n lsr 1)) else XI (pos_of_int (n lsr 1))
let z_small n = if n = 0 then Z0 else if n > 0 then Zpos (pos_of_int n) else Zneg (pos_of_int (-n))
let ten = z_small 10
(* arbitrary-precision decimal <-> Z, using the extracted Z operations only *)
let z_of_string s =
  let neg = String.length s > 0 && s.[0] = '-' in
  let acc = ref Z0 in
  String.iteri (fun i c -> if not (i = 0 && neg) then begin
      if c < '0' || c > '9' then failwith ("bad integer " ^ s);
      acc := Z.add (Z.mul !acc ten) (z_small (Char.code c - 48)) end) s;
  if neg then Z.opp !acc else !acc
let rec int_of_pos = function XH -> 1 | XO p -> 2 * int_of_pos p | XI p -> 2 * int_of_pos p + 1
let small_of_z = function Z0 -> 0 | Zpos p -> int_of_pos p | Zneg p -> - int_of_pos p
let string_of_z z =
  if z = Z0 then "0" else
  let neg = Z.ltb z Z0 in
  let r = ref (if neg then Z.opp z else z) and b = Buffer.create 20 in
  let digits = ref [] in
  while !r <> Z0 do let (q, d) = Z.div_eucl !r ten in digits := small_of_z d :: !digits; r := q done;
  if neg then Buffer.add_char b '-';
  List.iter (fun d -> Buffer.add_char b (Char.chr (48 + d))) !digits; Buffer.contents b
let tokenize s =
  let n = String.length s in
  let rec go i acc =
    if i >= n then List.rev acc else
    match s.[i] with
    | ' ' | '\t' | '\r' -> go (i+1) acc
    | '[' -> go (i+1) ("[" :: acc) | ']' -> go (i+1) ("]" :: acc)
    | _ -> let j = ref i in while !j < n && not (List.mem s.[!j] [' ';'[';']';'\t']) do incr j done;
           go !j (String.sub s i (!j - i) :: acc) in
  go 0 []
let rec parse_v toks = match toks with
  | "[" :: r -> let (items, r') = parse_list r [] in (L items, r')
  | "N" :: r -> (N, r)
  | t :: r -> (I (z_of_string t), r)
  | [] -> failwith "eof"
and parse_list toks acc = match toks with
  | "]" :: r -> (List.rev acc, r)
  | _ -> let (x, r) = parse_v toks in parse_list r (x :: acc)
let rec parse_all toks = match toks with [] -> [] | _ -> let (x, r) = parse_v toks in x :: parse_all r
let rec show = function I n -> string_of_z n | N -> "N" | L l -> "[" ^ String.concat " " (List.map show l) ^ "]"
let zi = function I n -> n | _ -> failwith "int"
let zl = function L l -> List.map zi l | _ -> failwith "list expected"
let zll = function L l -> List.map zl l | _ -> failwith "list expected"
let oz = function N -> None | I n -> Some n | _ -> failwith "optint"
let bl = function L l -> List.map (function I z -> z <> Z0 | _ -> failwith "bool") l | _ -> failwith "boollist"
let vz z = I z
let vzl l = L (List.map vz l)
let sl a b c = { sl_start = oz a; sl_stop = oz b; sl_step = oz c }
(* rsel: [0 i] one | [1 a b c] slice | [2 [..]] list | [3 [..]] mask | [4] all
   csel: [0 j] | [1 a b c] | [2] all | [3 [..]] list
   index: [0 rsel] | [1 rsel csel] | [2 [[mask rows]]] | [3] empty *)
let rsel = function
  | L [I Z0; i] -> ROne (zi i)
  | L [I (Zpos XH); a; b; c] -> RMany (RSlice (sl a b c))
  | L [I (Zpos (XO XH)); l] -> RMany (RList (zl l))
  | L [I (Zpos (XI XH)); m] -> RMany (RMask (bl m))
  | L [I (Zpos (XO (XO XH)))] -> RMany RAll
  | _ -> failwith "rsel"
let csel = function
  | L [I Z0; j] -> CInt (zi j)
  | L [I (Zpos XH); a; b; c] -> CSlice (sl a b c)
  | L [I (Zpos (XO XH))] -> CAll
  | L [I (Zpos (XI XH)); l] -> CList (zl l)
  | _ -> failwith "csel"
let index = function
  | L [I Z0; r] -> IRow (rsel r)
  | L [I (Zpos XH); r; c] -> IRowCol (rsel r, csel c)
  | L [I (Zpos (XO XH)); L m] -> IMask (List.map bl m)
  | L [I (Zpos (XI XH))] -> IEmpty
  | _ -> failwith "index"
let vres = function
  | Refused -> N
  | Ok (RScalar x) -> L [I Z0; vz x]
  | Ok (RFlat l) -> L [I (Zpos XH); vzl l]
  | Ok (RRagged r) -> L [I (Zpos (XO XH)); L (List.map vzl r)]
(* value: [0 x] scalar | [1 [..]] flat | [2 [..]] column | [3 [[..]..]] ragged *)
let value = function
  | L [I Z0; x] -> VScalar (zi x)
  | L [I (Zpos XH); l] -> VFlat (zl l)
  | L [I (Zpos (XO XH)); l] -> VCol (zl l)
  | L [I (Zpos (XI XH)); r] -> VRagged (zll r)
  | _ -> failwith "value"
let vrows = function Refused -> N | Ok r -> L (List.map vzl r)
(* hash ops: [0 ks] get | [1 ks vs] set | [2 ks v] set scalar | [3 v] fill | [4 ks] contains | [5 samples] count | [6] items *)
let hop = function
  | L [I Z0; ks] -> HGet (zl ks) | L [I (Zpos XH); ks; vs] -> HSet (zl ks, zl vs) | L [I (Zpos (XO XH)); ks; v] -> HSetS (zl ks, zi v)
  | L [I (Zpos (XI XH)); v] -> HFill (zi v) | L [I (Zpos (XO (XO XH))); ks] -> HContains (zl ks) | L [I (Zpos (XI (XO XH))); s] -> HCount (zl s) | L [I (Zpos (XO (XI XH)))] -> HItems
  | _ -> failwith "hop"
let hout = function
  | OVals Refused -> N | OVals (Ok l) -> vzl l
  | OBools l -> L (List.map (fun b -> I (if b then Zpos XH else Z0)) l)
  | ODone b -> I (if b then Zpos XH else Z0)
  | OItems l -> L (List.map (fun (k, v) -> L [vz k; vz v]) (List.sort compare l))
let dispatch op args = match op, args with
  | "hash", [keys; vals; sc; m; L ops] ->
      let ops = List.map hop ops in
      L [(match hash_model (zl keys) (zl vals) (oz sc) (oz m) ops with Refused -> N | Ok o -> L (List.map hout o));
         L (List.map hout (hash_spec (zl keys) (zl vals) (oz sc) ops))]
  | "hash_eq", [k1; v1; s1; m1; k2; v2; s2; m2] ->
      (match hash_eq (zl k1) (zl v1) (oz s1) (oz m1) (zl k2) (zl v2) (oz s2) (oz m2) with
       | None -> L [N; N]
       | Some (a, b) -> L [I (if a then Zpos XH else Z0); I (if b then Zpos XH else Z0)])
  | "hash_add", [k1; v1; s1; k2; v2; s2; m] ->
      let pairs l = L (List.map (fun (k, v) -> L [I k; I v]) l) in
      (match hash_add (zl k1) (zl v1) (oz s1) (zl k2) (zl v2) (oz s2) (oz m) with
       | None -> L [N; N]
       | Some (a, b) -> L [(match a with Refused -> N | Ok l -> pairs l); pairs b])
  | "bit_unpack", [a; b] -> L [vzl (bit_unpack (zl a) (zi b)); vzl (zl a)]
  | "bit_get", [a; b; idx] ->
      let spec = (try vzl (List.map (fun i -> let n = List.length (zl a) in let j = small_of_z i in
                                       if j < -n || j >= n then raise Exit else List.nth (zl a) (if j < 0 then j + n else j)) (zl idx)) with Exit -> N) in
      L [(match bit_get (zl a) (zi b) (zl idx) with Refused -> N | Ok l -> vzl l); spec]
  | "bit_getlist", [a; b; idx] -> L [(match bit_getlist (zl a) (zi b) (zl idx) with Refused -> N | Ok l -> vzl l); N]
  | "bit_window", [a; b; w] -> L [vzl (bit_window (zl a) (zi b) (zi w)); vzl (spec_windows (zl a) (zi b) (zi w))]
  | "rle_rt", [a] -> let (ev, vs) = rle_encode (zl a) in L [L [vzl ev; vzl vs; vzl (rle_to_array (ev, vs))]; L [vzl (rle_decode (ev, vs))]]
  | "rle_slice", [a; x; y; z] ->
      (match rle_slice (zl a) (sl x y z) with
       | Refused -> L [N; (match rle_slice_spec (zl a) (sl x y z) with Refused -> N | Ok l -> vzl l)]
       | Ok (ev, vs) -> L [L [vzl ev; vzl vs; vzl (rle_decode (ev, vs))]; (match rle_slice_spec (zl a) (sl x y z) with Refused -> N | Ok l -> vzl l)])
  | "rle_get", [a; i] -> L [(match rle_get (zl a) (zi i) with Refused -> N | Ok x -> vz x); N]
  | "rle_bin", [c; a; b] ->
      (match rle_bin (zi c) (zl a) (zl b) with
       | Refused -> L [N; vzl (rle_bin_spec (zi c) (zl a) (zl b))]
       | Ok (ev, vs) -> L [L [vzl ev; vzl vs; vzl (rle_decode (ev, vs))]; vzl (rle_bin_spec (zi c) (zl a) (zl b))])
  | "rle_concat", [ls] -> let (ev, vs) = rle_concat_Z (zll ls) in L [L [vzl ev; vzl vs; vzl (rle_decode (ev, vs))]; vzl (List.concat (zll ls))]
  | "rle_windows", [a; ss; es] -> let r = L (List.map vzl (rle_windows_Z (zl a) (zl ss) (zl es))) in L [r; N]
  | "rle_rlmask", [a; m] -> L [vzl (rle_rlmask_Z (zl a) (bl m)); N]
  | "rle_sum", [a] -> L [vz (rle_sum_Z (zl a)); vz (List.fold_left Z.add Z0 (zl a))]
  | "ufunc", [c; x; y] ->
      let y' = (match y with L [I Z0; v] -> OScalar (zi v) | L [I (Zpos XH); l] -> OCol (zl l) | L [I (Zpos (XO XH)); r] -> ORagged (fr (zll r)) | _ -> failwith "operand") in
      let (m, sp) = op_ufunc (zi c) (zll x) y' in L [vrows m; vrows sp]
  | "reduce", [c; x] -> let (m, sp) = op_reduce (zi c) (zll x) in L [(match m with None -> N | Some l -> vzl l); vzl sp]
  | "cumsum", [x] -> let (m, sp) = op_cumsum (zll x) in L [L (List.map vzl m); L (List.map vzl sp)]
  | "accumulate", [c; x] -> let (m, sp) = op_accumulate (zi c) (zll x) in L [L (List.map vzl m); L (List.map vzl sp)]
  | "diff", [n; x] -> let (m, sp) = op_diff (zi n) (zll x) in L [vrows m; L (List.map vzl sp)]
  | "sort", [x] -> let (m, sp) = op_sort (zll x) in L [vrows m; L (List.map vzl sp)]
  | "unique", [x] -> let (m, (s1, s2)) = op_unique (zll x) in
      L [(match m with Refused -> N | Ok (a, b) -> L [L (List.map vzl a); L (List.map vzl b)]); L [L (List.map vzl s1); L (List.map vzl s2)]]
  | "nonzero", [x] -> let ((a, b), (c, d)) = op_nonzero (zll x) in L [L [vzl a; vzl b]; L [vzl c; vzl d]]
  | "subset", [x; L m] -> let (md, sp) = op_subset (zll x) (List.map bl m) in L [vrows md; L (List.map vzl sp)]
  | "rl2_mean", [x] ->
      let vpl l = L (List.map (fun (a, b) -> L [vz a; vz b]) l) in
      let (m, sp) = rl2_mean_Z (zll x) in
      L [(match m with None -> N | Some ((ev, vs), dec) -> L [vzl ev; vpl vs; vpl dec]); vpl sp]
  | "rl2_any", [x] -> let ((ev, vs), dec), sp = rl2_any_Z (zll x) in L [L [vzl ev; vzl vs; vzl dec]; vzl sp]
  | "rslice1d", [x; st; en] -> let (md, sp) = op_rslice1d (zl x) (zl st) (zl en) in L [vrows md; L (List.map vzl sp)]
  | "rslice2d", [x; w; st; en] -> let (md, sp) = op_rslice2d (zll x) (zi w) (zl st) (zl en) in L [vrows md; L (List.map vzl sp)]
  | "rslice", [x; st; en] -> let (md, sp) = op_rslice (zll x) (zl st) (zl en) in L [vrows md; L (List.map vzl sp)]
  | "padded", [x; fill; left] -> let (md, sp) = op_padded (zll x) (zi fill) (zi left <> Z0) in L [vrows md; L (List.map vzl sp)]
  | "colsum", [x] -> let (md, sp) = op_colsum (zll x) in L [vzl md; vzl sp]
  | "colmean", [x] -> let vpl l = L (List.map (fun (a, b) -> L [vz a; vz b]) l) in let (md, sp) = op_colmean (zll x) in L [vpl md; vpl sp]
  | "rowmean", [x] -> let vpl l = L (List.map (fun (a, b) -> L [vz a; vz b]) l) in let (md, sp) = op_rowmean (zll x) in L [(match md with None -> N | Some l -> vpl l); vpl sp]
  | "colcounts", [x] -> let (md, sp) = op_colcounts (zll x) in L [vzl md; vzl sp]
  | "where", [x; L m; y] -> let (md, sp) = op_where (zll x) (List.map bl m) (zll y) in L [vrows md; L (List.map vzl sp)]
  | "where_s", [x; L m; y] -> let (md, sp) = op_where_s (zll x) (List.map bl m) (zi y) in L [vrows md; L (List.map vzl sp)]
  | "like", [x; c] -> let (md, sp) = op_like (zll x) (zi c) in L [L (List.map vzl md); L (List.map vzl sp)]
  | "concat1", [L xs] -> let r = L (List.map vzl (op_concat1 (List.map zll xs))) in L [r; r]
  | "rl2_intervals", [st; en; n; v] ->
      let (((i, vs), d), sp) = rl2_intervals (zl st) (zl en) (zi n) (zi v) in
      L [L [L (List.map vzl i); L (List.map vzl vs); L (List.map vzl d)]; L (List.map vzl sp)]
  | "fastidx", [st; ls] -> let (m, sp) = op_fastidx (zl st) (zl ls) in L [vzl m; vzl sp]
  | "argmax", [x] -> let (m, s) = op_argmax (zll x) in L [vzl m; vzl s]
  | "argmin", [x] -> let (m, s) = op_argmin (zll x) in L [vzl m; vzl s]
  | "rl2", (L [I kind; rows]) :: op :: rest ->
      (* kind 0 = ragged variant, 1 = matrix variant *)
      let x = if kind = Z0 then from_ragged (zll rows) else from_matrix (zll rows) in
      let obs x = let ((i, v), d) = rl2_obs x in L [L (List.map vzl i); L (List.map vzl v); L (List.map vzl d)] in
      let rla (ev, vs) = L [vzl ev; vzl vs; vzl (rle_decode (ev, vs))] in
      (match op, rest with
       | I Z0, [] -> obs x
       | I (Zpos XH), [rs] -> (match rsel rs with RMany s -> (match rl2_select x s with Refused -> N | Ok y -> obs y) | _ -> failwith "rows")
       | I (Zpos (XO XH)), [i; j] -> (match rl2_elem x (zi i) (zi j) with Refused -> N | Ok v -> vz v)
       | I (Zpos (XI XH)), [j] -> vzl (rl2_col x (zi j))
       | I (Zpos (XO (XO XH))), [] -> L [vzl (rl2_sum x); vzl (rl2_max x); vzl (rl2_argmax x)]
       | I (Zpos (XI (XO XH))), [] -> L [rla (rl2_ravel x); rla (rl2_col_counts x); rla (rl2_col_sum x)]
       | I (Zpos (XO (XI XH))), [a; b; c] -> (match rl2_col_range x (sl a b c) with Refused -> N | Ok y -> obs y)
       | I (Zpos (XI (XI XH))), [c; v] -> obs (rl2_map (fun e -> zop (zi c) e (zi v)) x)
       | I (Zpos (XO (XO (XO XH)))), [c; v] -> obs (rl2_map (fun e -> zop (zi c) (zi v) e) x)
       | I (Zpos (XI (XO (XO XH)))), [c; col] -> obs (rl2_map_col (fun e k -> zop (zi c) e k) x (zl col))
       | I (Zpos (XO (XI (XO XH)))), [c; col] -> obs (rl2_map_col (fun e k -> zop (zi c) k e) x (zl col))
       | I (Zpos (XI (XI (XO XH)))), [] -> let ((a, b), m) = rl2_rowagg x in L [vzl a; vzl b; L (List.map (fun (s, c) -> L [vz s; vz c]) m)]
       | _ -> failwith "rl2 op")
  | "geo", [ls] ->
      let pk ((a, b), (c, d)) = L [vzl a; vzl b; vzl c; vz d] in L [pk (geo_model (zl ls)); pk (geo_spec (zl ls))]
  | "build", [r] ->
      let pk ((a, b), (c, (d, e))) = L [vz a; vz b; vzl c; L (List.map vzl d); vzl e] in L [pk (build_model (zll r)); pk (build_spec (zll r))]
  | "flat", [d; ls] -> L [vrows (flat_model (zl d) (zl ls)); vrows (flat_spec (zl d) (zl ls))]
  | "tonumpy", [r] -> L [vrows (tonumpy_model (zll r)); vrows (tonumpy_spec (zll r))]
  | "fromnumpy", [m; k] -> L [vrows (fromnumpy_model (zll m) (zi k)); L (List.map vzl (zll m))]
  | "offsets", [o] -> let pk (a, b) = L [vzl a; vzl b] in L [pk (offsets_model (zl o)); pk (offsets_spec (zl o))]
  | "mi", [ls] ->
      let pairs l = L (List.map (fun (a, b) -> L [vz a; vz b]) l) in
      let (u, r) = mi_model (zl ls) and (su, sr) = mi_spec (zl ls) in L [L [pairs u; vzl r]; L [pairs su; vzl sr]]
  | "heap", [L ops] ->
      (* [0 rows] build | [1 x rsel csl] select (csl = N or [a b c]) | [2 x] read | [3 x rsel csl v] assign *)
      let nat_of v = let rec go n = if n <= 0 then O else S (go (n - 1)) in go (small_of_z (zi v)) in
      let rs r = (match rsel r with RMany s -> s | ROne i -> RList [i]) in
      let cs = function N -> None | L [a; b; c] -> Some (sl a b c) | _ -> failwith "csl" in
      let hop = function
        | L [I Z0; rows] -> OBuild (zll rows)
        | L [I (Zpos XH); x; r; c] -> OSelect (nat_of x, HSel (rs r, cs c))
        | L [I (Zpos (XO XH)); x] -> ORead (nat_of x)
        | L [I (Zpos (XI XH)); x; r; c; v] -> OAssign (nat_of x, HSel (rs r, cs c), zi v)
        | _ -> failwith "heap op" in
      let outs l = L (List.map (function None -> N | Some rows -> L (List.map vzl rows)) l) in
      let ((m, s), safe) = heap_run (List.map hop ops) in
      L [outs m; outs s; I (if safe then Zpos XH else Z0)]
  | "dc_new", [o] -> let f = function Refused -> N | Ok n -> vz n in L [f (dc_new (zll o)); f (dc_new_spec (zll o))]
  | "dc_astype", [o; keep] ->
      let (m, sp) = dc_astype (zll o) (zl keep) in L [vrows m; vrows sp]
  | "dc_select", [o; r] ->
      let s = (match rsel r with RMany s -> s | _ -> failwith "rows") in
      L [vrows (dc_select (zll o) s); vrows (dc_select_spec (zll o) s)]
  | "dc_item", [o; i] -> let f = function Refused -> N | Ok l -> vzl l in L [f (dc_item (zll o) (zi i)); f (dc_item_spec (zll o) (zi i))]
  | "dc_iter", [o] -> let f = function Refused -> N | Ok l -> vzl l in L [L (List.map f (dc_iter (zll o))); L (List.map vzl (dc_entries (zll o)))]
  | "dc_eq", [a; b] -> let r = I (if dc_eq (zll a) (zll b) then Zpos XH else Z0) in L [r; I (if zll a = zll b then Zpos XH else Z0)]
  | "dc_concat", [L os] -> let f l = L (List.map vzl l) in L [f (dc_concat (List.map zll os)); f (dc_concat_spec (List.map zll os))]
  | "varlen", [L blocks] -> L (List.map vzl (varlen_concat (List.map zll blocks)))
  | "setitem", [r; i; v] -> L [vrows (setitem_model_Z (zll r) (index i) (value v)); vrows (setitem_spec_Z (zll r) (index i) (value v))]
  | "getitem", [r; i] -> L [vres (getitem_model_Z (zll r) (index i)); vres (getitem_spec_Z (zll r) (index i))]
  | "chain", [r; i1; i2] -> L [vres (chain_model_Z (zll r) (index i1) (index i2)); vres (chain_spec_Z (zll r) (index i1) (index i2))]
  | _ -> failwith ("unknown op " ^ op)
let () =
  try while true do
    let line = input_line stdin in
    (match tokenize line with
     | [] -> ()
     | op :: rest -> (try print_endline (show (dispatch op (parse_all rest))) with e -> print_endline ("ERR " ^ Printexc.to_string e)))
  done with End_of_file -> ()
