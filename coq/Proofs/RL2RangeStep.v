From Coq Require Import ZifyBool.
From NPS Require Import ListAux PySlice NumpySem Scatter BuildIdx SliceAP XorBroadcast RLE RLEProof RLEOps CanonProof BinaryProof StartEnd GetSlice StepProof StepNeg ReverseProof RLE2d RL2Col RL2Range.
Open Scope Z_scope.

(* C17: column ranges a:b:k (k >= 1) inside the rows of a ragged run-length array: every row decodes to every k-th element of row[a:b].
   The row code is the step-1 cut (= the 1-D _start_to_end, RL2Range) followed by IndexableMixin._step_subset on the row. *)

(* the cut does not depend on the step as long as it is positive *)
Lemma col_range_row_pos ev vs a b k : 1 <= k -> strictly_increasing (0 :: ev) -> length ev = length vs -> 0 <= a < b -> b <= last (0 :: ev) 0 ->
  col_range_row (Some a) (Some b) k (0 :: ev) vs
  = Some (let S := start_to_end Z (0 :: ev, vs) a b in step_subset_row k (fst S) (snd S)).
Proof.
  intros Hk Hs Hlen Hab Hb. unfold col_range_row. cbv zeta.
  replace (k <? 0) with false by lia. cbv iota. cbn [option_map].
  set (L := last (0 :: ev) 0) in *.
  assert (Eb : (if b >=? 0 then Z.min L b else Z.max 0 (L + b)) = b) by (destruct (b >=? 0) eqn:?; lia).
  assert (Ea : (if a >=? 0 then Z.min L a else Z.max 0 (L + a)) = a) by (destruct (a >=? 0) eqn:?; lia).
  pattern (if b >=? 0 then Z.min L b else Z.max 0 (L + b)). rewrite Eb. cbv beta.
  pattern (if a >=? 0 then Z.min L a else Z.max 0 (L + a)). rewrite Ea. cbv beta.
  rewrite (find_run_stop ev 0 b Hs) by lia. rewrite (find_run_start ev 0 a Hs) by lia.
  cbn [orb]. unfold cut_row. cbn [option_map].
  set (E := 0 :: ev) in *. set (si := ssr E a - 1). set (ei := ssl E b).
  assert (Hev : ev <> []) by (intros ->; unfold L, E in Hb; cbn in Hb; lia).
  assert (Hsi0 : 0 <= si) by (unfold si, E; rewrite ssr_cons; pose proof (ssr_nonneg ev a); replace (0 <=? a) with true by lia; lia).
  assert (Hsiei : si + 1 <= ei) by (unfold si, ei; pose proof (ssr_le_ssl E a b ltac:(lia)); lia).
  assert (Heilen : ei <= zlen ev).
  { unfold ei, E. rewrite ssl_cons. replace (0 <? b) with true by lia.
    assert (Hin : In (last ev 0) ev) by (apply last_In_ne; exact Hev).
    assert (Hl : L = last ev 0) by (unfold L, E; destruct ev; [congruence|reflexivity]).
    pose proof (ssl_lt_len ev b (last ev 0) Hin ltac:(lia)). lia. }
  assert (HzE : zlen E = zlen ev + 1) by (unfold E, zlen; cbn [length]; lia).
  assert (Hzv : zlen vs = zlen ev) by (unfold zlen; lia).
  replace (ei - 1 + 2) with (ei + 1) by lia. replace (ei - 1 + 1) with ei by lia.
  rewrite (Z.max_r (si + 1) (ei + 1)) by lia. rewrite (Z.max_r si ei) by lia.
  replace (si >=? ei + 1) with false by lia.
  rewrite (win_is_slice E si (ei + 1)) by lia. rewrite (win_is_slice vs si ei) by lia.
  cbn [fst snd].
  assert (HX : (2 <= length (zslice_l E si (ei + 1)))%nat).
  { pose proof (zslice_l_length E si (ei + 1) ltac:(lia) ltac:(lia) ltac:(lia)) as Hlx. unfold zlen in Hlx. lia. }
  rewrite (rebase_cut _ a b HX).
  unfold start_to_end. cbn [fst snd]. fold si ei. cbv zeta.
  destruct (step_subset_row k _ _) as [i v]. reflexivity.
Qed.

(* _step_subset on one row, positive step: every k-th element *)
Lemma step_subset_row_decode (k : Z) (ls vs : list Z) : 1 <= k -> canon Z ls vs -> ls <> [] ->
  decode Z (step_subset_row k (evs ls) vs) = map (fun q => dense Z 0 vs ls (q * k)) (ap 0 (cdiv k (zsum ls)) 1).
Proof.
  intros Hk Hc Hne. unfold step_subset_row. replace (k <? 0) with false by lia. replace (Z.abs k) with k by lia.
  assert (Em : (if k =? 1 then evs ls else map (fun i => (i + k - 1) / k) (evs ls)) = map (cdiv k) (evs ls)).
  { destruct (k =? 1) eqn:E; [|reflexivity]. assert (k = 1) by lia. subst k. rewrite <- (map_id (evs ls)) at 1. apply map_ext. intros i. unfold cdiv.
    replace (i + 1 - 1) with i by lia. now rewrite Z.div_1_r. }
  rewrite Em. destruct (evs_cons ls Hne) as (ev & E & Hl).
  assert (Hm : map (cdiv k) (evs ls) = cdiv k 0 :: map (cdiv k) ev) by (rewrite E; reflexivity).
  rewrite Hm. destruct (remove_empty_row_decode (map (cdiv k) ev) (cdiv k 0) vs) as (re' & rv & Er & Ed).
  { rewrite map_length. destruct Hc as [_ Hlen]. lia. }
  rewrite Er, Ed, <- Hm. exact (stride_decode Z 0 k Hk ls vs Hc).
Qed.

Theorem rl2_col_range_pos_partial (rows : list (list Z * list Z)) (a b k : Z) : 0 <= a < b -> 1 <= k ->
  Forall (fun p => canon Z (fst p) (snd p) /\ b <= zsum (fst p)) rows ->
  exists y, rl2_col_range (of_runs rows) {| sl_start := Some a ; sl_stop := Some b ; sl_step := Some k |} = Ok y /\
            rl2_decode y = map (fun d => let w := ztake (b - a) (zdrop a d) in map (fun q => nth (Z.to_nat (q * k)) w 0) (ap 0 (cdiv k (b - a)) 1))
                               (rl2_decode (of_runs rows)).
Proof.
  intros Hab Hk H. unfold rl2_col_range, step_of. cbn [sl_step sl_start sl_stop]. replace (k =? 0) with false by lia.
  assert (Hee : early_empty (Some a) (Some b) k = false) by (unfold early_empty; replace (k <? 0) with false by lia; lia).
  rewrite Hee. cbv zeta.
  assert (Hrow : forall p, In p rows -> exists iv, col_range_row (Some a) (Some b) k (evs (fst p)) (snd p) = Some iv /\
            decode Z iv = (let w := ztake (b - a) (zdrop a (decode Z (evs (fst p), snd p))) in map (fun q => nth (Z.to_nat (q * k)) w 0) (ap 0 (cdiv k (b - a)) 1))).
  { intros [ls vs] Hp. rewrite Forall_forall in H. destruct (H _ Hp) as ([Hl Hlen] & Hb). cbn [fst snd] in *.
    assert (Hne : ls <> []) by (intros ->; cbn in Hb; lia).
    destruct (evs_cons ls Hne) as (ev & Eev & Hlev). rewrite Eev.
    assert (Hsi : strictly_increasing (0 :: ev)).
    { rewrite <- Eev. unfold evs, excl_prefix. replace (zsum ls) with (0 + zsum ls) by lia. apply (si_evs_gen Z 0 Z.eqb (fun x y Hxy => proj1 (Z.eqb_eq x y) Hxy)). exact Hl. }
    assert (Hlast : last (0 :: ev) 0 = zsum ls) by (rewrite <- Eev; unfold evs; apply last_last).
    rewrite (col_range_row_pos ev vs a b k Hk Hsi ltac:(lia) Hab ltac:(lia)). cbv zeta.
    pose proof (start_to_end_decode Z ev vs 0 a b ltac:(lia) Hsi ltac:(lia) ltac:(lia) ltac:(lia)) as Hd.
    pose proof (start_to_end_shape Z ev vs 0 a b ltac:(lia) Hsi ltac:(lia) ltac:(lia) ltac:(lia)) as Hsh.
    destruct (shape_runs Z 0 Z.eqb (fun x y Hxy => proj1 (Z.eqb_eq x y) Hxy) _ _ Hsh) as (ls' & E1 & Hc' & Hz' & Hne').
    destruct (start_to_end Z (0 :: ev, vs) a b) as [se sv] eqn:Est. cbn [fst snd] in *. subst se.
    eexists. split; [reflexivity|].
    rewrite (step_subset_row_decode k ls' sv Hk Hc' Hne'). rewrite Hz'. apply map_ext. intros q. unfold dense. f_equal.
    replace (a - 0) with a in Hd by lia. rewrite <- Hd. symmetry. apply (decode_evs Z). }
  unfold of_runs. cbn [r_idx r_val r_len]. rewrite (map2_maps (col_range_row (Some a) (Some b) k) (fun p => evs (fst p)) snd rows).
  set (F := fun p : list Z * list Z => col_range_row (Some a) (Some b) k (evs (fst p)) (snd p)) in *.
  assert (Hall : forallb (fun o : option (list Z * list Z) => match o with Some _ => true | None => false end) (map F rows) = true).
  { apply forallb_forall. intros o Ho. apply in_map_iff in Ho. destruct Ho as (p & <- & Hp). destruct (Hrow p Hp) as (iv & E & _). unfold F. now rewrite E. }
  rewrite Hall. eexists. split; [reflexivity|].
  set (rs := flat_map (fun o : option (list Z * list Z) => match o with Some p => [p] | None => [] end) (map F rows)).
  assert (EL : rl2_decode {| r_idx := map fst rs ; r_val := map snd rs ; r_len := None |} = map (decode Z) rs).
  { unfold rl2_decode, rl2_rows. cbn [r_idx r_val r_len]. rewrite (map2_maps _ fst snd rs), map_map. apply map_ext. intros [i v]. reflexivity. }
  assert (ER : rl2_decode {| r_idx := map (fun p : list Z * list Z => evs (fst p)) rows ; r_val := map snd rows ; r_len := None |}
               = map (fun p => decode Z (evs (fst p), snd p)) rows).
  { unfold rl2_decode, rl2_rows. cbn [r_idx r_val r_len]. rewrite (map2_maps _ (fun p : list Z * list Z => evs (fst p)) snd rows), map_map. apply map_ext. intros p. reflexivity. }
  rewrite EL, ER, map_map. unfold rs. clear EL ER rs Hall H.
  induction rows as [|p rows IH]; [reflexivity|].
  cbn [map flat_map]. destruct (Hrow p (or_introl eq_refl)) as (iv & E & Ed). unfold F at 1. rewrite E. cbn [app map]. rewrite Ed. f_equal.
  apply IH. intros q Hq. apply Hrow. now right.
Qed.
Print Assumptions rl2_col_range_pos_partial.

(* ---------- negative steps: rl[:, a:b:-k] with 0 <= b < a < len(row) ---------- *)
(* the cut for a negative step is the positive cut of the window (b, a] = [b+1, a+1) *)
Lemma col_range_row_neg ev vs a b k : 1 <= k -> strictly_increasing (0 :: ev) -> length ev = length vs -> 0 <= b < a -> a < last (0 :: ev) 0 ->
  col_range_row (Some a) (Some b) (- k) (0 :: ev) vs
  = Some (let S := start_to_end Z (0 :: ev, vs) (b + 1) (a + 1) in step_subset_row (- k) (fst S) (snd S)).
Proof.
  intros Hk Hs Hlen Hab Hb. unfold col_range_row. cbv zeta.
  replace (- k <? 0) with true by lia. cbv iota. cbn [option_map].
  set (L := last (0 :: ev) 0) in *.
  assert (Eb : (if b >=? 0 then Z.min L b else Z.max 0 (L + b)) = b) by (destruct (b >=? 0) eqn:?; lia).
  assert (Ea : (if a >=? 0 then Z.min L a else Z.max 0 (L + a)) = a) by (destruct (a >=? 0) eqn:?; lia).
  pattern (if b >=? 0 then Z.min L b else Z.max 0 (L + b)). rewrite Eb. cbv beta.
  pattern (if a >=? 0 then Z.min L a else Z.max 0 (L + a)). rewrite Ea. cbv beta.
  rewrite (find_run_stop ev 0 (a + 1) Hs) by lia. rewrite (find_run_start ev 0 (b + 1) Hs) by lia.
  cbn [orb]. unfold cut_row. cbn [option_map].
  set (E := 0 :: ev) in *. set (si := ssr E (b + 1) - 1). set (ei := ssl E (a + 1)).
  assert (Hev : ev <> []) by (intros ->; unfold L, E in Hb; cbn in Hb; lia).
  assert (Hsi0 : 0 <= si) by (unfold si, E; rewrite ssr_cons; pose proof (ssr_nonneg ev (b + 1)); replace (0 <=? b + 1) with true by lia; lia).
  assert (Hsiei : si + 1 <= ei) by (unfold si, ei; pose proof (ssr_le_ssl E (b + 1) (a + 1) ltac:(lia)); lia).
  assert (Heilen : ei <= zlen ev).
  { unfold ei, E. rewrite ssl_cons. replace (0 <? a + 1) with true by lia.
    assert (Hin : In (last ev 0) ev) by (apply last_In_ne; exact Hev).
    assert (Hl : L = last ev 0) by (unfold L, E; destruct ev; [congruence|reflexivity]).
    pose proof (ssl_lt_len ev (a + 1) (last ev 0) Hin ltac:(lia)). lia. }
  assert (HzE : zlen E = zlen ev + 1) by (unfold E, zlen; cbn [length]; lia).
  assert (Hzv : zlen vs = zlen ev) by (unfold zlen; lia).
  replace (ei - 1 + 2) with (ei + 1) by lia. replace (ei - 1 + 1) with ei by lia.
  rewrite (Z.max_r (si + 1) (ei + 1)) by lia. rewrite (Z.max_r si ei) by lia.
  replace (si >=? ei + 1) with false by lia.
  rewrite (win_is_slice E si (ei + 1)) by lia. rewrite (win_is_slice vs si ei) by lia.
  cbn [fst snd].
  assert (HX : (2 <= length (zslice_l E si (ei + 1)))%nat).
  { pose proof (zslice_l_length E si (ei + 1) ltac:(lia) ltac:(lia) ltac:(lia)) as Hlx. unfold zlen in Hlx. lia. }
  rewrite (rebase_cut _ (b + 1) (a + 1) HX).
  unfold start_to_end. cbn [fst snd]. fold si ei. cbv zeta.
  destruct (step_subset_row (- k) _ _) as [i v]. reflexivity.
Qed.

(* _step_subset on one row, negative step: mirror the row, then every k-th element *)
Lemma step_subset_row_neg_decode (k : Z) (ls vs : list Z) : 1 <= k -> canon Z ls vs -> ls <> [] ->
  decode Z (step_subset_row (- k) (evs ls) vs) = map (fun q => nth (Z.to_nat (q * k)) (rev (spec_broadcast Z vs ls)) 0) (ap 0 (cdiv k (zsum ls)) 1).
Proof.
  intros Hk Hc Hne.
  assert (E : step_subset_row (- k) (evs ls) vs = step_subset_row k (evs (rev ls)) (rev vs)).
  { unfold step_subset_row. replace (- k <? 0) with true by lia. replace (k <? 0) with false by lia. replace (Z.abs (- k)) with (Z.abs k) by lia.
    assert (Hlast : last (evs ls) 0 = zsum ls) by (unfold evs; apply last_last). rewrite Hlast, (mirror_evs ls Hne). reflexivity. }
  rewrite E.
  assert (Hc' : canon Z (rev ls) (rev vs)) by (destruct Hc as [Hl Hlen]; split; [now apply Forall_rev|now rewrite !rev_length]).
  assert (Hne' : rev ls <> []) by (destruct ls; [congruence|cbn; destruct (rev ls); discriminate]).
  rewrite (step_subset_row_decode k (rev ls) (rev vs) Hk Hc' Hne'), zsum_rev. apply map_ext. intros q. unfold dense. f_equal.
  destruct Hc as [_ Hlen]. now apply spec_broadcast_rev.
Qed.

Theorem rl2_col_range_neg_inside (rows : list (list Z * list Z)) (a b k : Z) : 0 <= b < a -> 1 <= k ->
  Forall (fun p => canon Z (fst p) (snd p) /\ a < zsum (fst p)) rows ->
  exists y, rl2_col_range (of_runs rows) {| sl_start := Some a ; sl_stop := Some b ; sl_step := Some (- k) |} = Ok y /\
            rl2_decode y = map (fun d => let w := rev (ztake (a - b) (zdrop (b + 1) d)) in map (fun q => nth (Z.to_nat (q * k)) w 0) (ap 0 (cdiv k (a - b)) 1))
                               (rl2_decode (of_runs rows)).
Proof.
  intros Hab Hk H. unfold rl2_col_range, step_of. cbn [sl_step sl_start sl_stop]. replace (- k =? 0) with false by lia.
  assert (Hee : early_empty (Some a) (Some b) (- k) = false) by (unfold early_empty; replace (- k <? 0) with true by lia; lia).
  rewrite Hee. cbv zeta.
  assert (Hrow : forall p, In p rows -> exists iv, col_range_row (Some a) (Some b) (- k) (evs (fst p)) (snd p) = Some iv /\
            decode Z iv = (let w := rev (ztake (a - b) (zdrop (b + 1) (decode Z (evs (fst p), snd p)))) in map (fun q => nth (Z.to_nat (q * k)) w 0) (ap 0 (cdiv k (a - b)) 1))).
  { intros [ls vs] Hp. rewrite Forall_forall in H. destruct (H _ Hp) as ([Hl Hlen] & Hb). cbn [fst snd] in *.
    assert (Hne : ls <> []) by (intros ->; cbn in Hb; lia).
    destruct (evs_cons ls Hne) as (ev & Eev & Hlev). rewrite Eev.
    assert (Hsi : strictly_increasing (0 :: ev)).
    { rewrite <- Eev. unfold evs, excl_prefix. replace (zsum ls) with (0 + zsum ls) by lia. apply (si_evs_gen Z 0 Z.eqb (fun x y Hxy => proj1 (Z.eqb_eq x y) Hxy)). exact Hl. }
    assert (Hlast : last (0 :: ev) 0 = zsum ls) by (rewrite <- Eev; unfold evs; apply last_last).
    rewrite (col_range_row_neg ev vs a b k Hk Hsi ltac:(lia) Hab ltac:(lia)). cbv zeta.
    pose proof (start_to_end_decode Z ev vs 0 (b + 1) (a + 1) ltac:(lia) Hsi ltac:(lia) ltac:(lia) ltac:(lia)) as Hd.
    pose proof (start_to_end_shape Z ev vs 0 (b + 1) (a + 1) ltac:(lia) Hsi ltac:(lia) ltac:(lia) ltac:(lia)) as Hsh.
    destruct (shape_runs Z 0 Z.eqb (fun x y Hxy => proj1 (Z.eqb_eq x y) Hxy) _ _ Hsh) as (ls' & E1 & Hc' & Hz' & Hne').
    destruct (start_to_end Z (0 :: ev, vs) (b + 1) (a + 1)) as [se sv] eqn:Est. cbn [fst snd] in *. subst se.
    eexists. split; [reflexivity|].
    rewrite (step_subset_row_neg_decode k ls' sv Hk Hc' Hne'). rewrite Hz'. replace (a + 1 - (b + 1)) with (a - b) by lia.
    apply map_ext. intros q. f_equal. f_equal.
    replace (b + 1 - 0) with (b + 1) in Hd by lia. replace (a + 1 - (b + 1)) with (a - b) in Hd by lia. rewrite <- Hd. symmetry. apply (decode_evs Z). }
  unfold of_runs. cbn [r_idx r_val r_len]. rewrite (map2_maps (col_range_row (Some a) (Some b) (- k)) (fun p => evs (fst p)) snd rows).
  set (F := fun p : list Z * list Z => col_range_row (Some a) (Some b) (- k) (evs (fst p)) (snd p)) in *.
  assert (Hall : forallb (fun o : option (list Z * list Z) => match o with Some _ => true | None => false end) (map F rows) = true).
  { apply forallb_forall. intros o Ho. apply in_map_iff in Ho. destruct Ho as (p & <- & Hp). destruct (Hrow p Hp) as (iv & E & _). unfold F. now rewrite E. }
  rewrite Hall. eexists. split; [reflexivity|].
  set (rs := flat_map (fun o : option (list Z * list Z) => match o with Some p => [p] | None => [] end) (map F rows)).
  assert (EL : rl2_decode {| r_idx := map fst rs ; r_val := map snd rs ; r_len := None |} = map (decode Z) rs).
  { unfold rl2_decode, rl2_rows. cbn [r_idx r_val r_len]. rewrite (map2_maps _ fst snd rs), map_map. apply map_ext. intros [i v]. reflexivity. }
  assert (ER : rl2_decode {| r_idx := map (fun p : list Z * list Z => evs (fst p)) rows ; r_val := map snd rows ; r_len := None |}
               = map (fun p => decode Z (evs (fst p), snd p)) rows).
  { unfold rl2_decode, rl2_rows. cbn [r_idx r_val r_len]. rewrite (map2_maps _ (fun p : list Z * list Z => evs (fst p)) snd rows), map_map. apply map_ext. intros p. reflexivity. }
  rewrite EL, ER, map_map. unfold rs. clear EL ER rs Hall H.
  induction rows as [|p rows IH]; [reflexivity|].
  cbn [map flat_map]. destruct (Hrow p (or_introl eq_refl)) as (iv & E & Ed). unfold F at 1. rewrite E. cbn [app map]. rewrite Ed. f_equal.
  apply IH. intros q Hq. apply Hrow. now right.
Qed.
Print Assumptions rl2_col_range_neg_inside.

Example col_range_neg_example :
  let rows := [([2; 3], [5; 7]); ([4; 1], [1; 2]); ([1; 1; 3], [1; 2; 3])] in
  Forall (fun p => canon Z (fst p) (snd p) /\ 4 < zsum (fst p)) rows /\
  rmap rl2_decode (rl2_col_range (of_runs rows) {| sl_start := Some 4 ; sl_stop := Some 0 ; sl_step := Some (-2) |}) = Ok [[7; 7]; [2; 1]; [3; 3]].
Proof. split; [repeat constructor; cbn; lia|reflexivity]. Qed.

Example col_range_step_example :
  let rows := [([2; 3], [5; 7]); ([4; 1], [1; 2]); ([1; 1; 3], [1; 2; 3])] in
  Forall (fun p => canon Z (fst p) (snd p) /\ 5 <= zsum (fst p)) rows /\
  rmap rl2_decode (rl2_col_range (of_runs rows) {| sl_start := Some 0 ; sl_stop := Some 5 ; sl_step := Some 2 |}) = Ok [[5; 7; 7]; [1; 1; 2]; [1; 3; 3]].
Proof. split; [repeat constructor; cbn; lia|reflexivity]. Qed.
