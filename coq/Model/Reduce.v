From NPS Require Import ListAux PySlice Scatter BuildIdx.
Open Scope Z_scope.

(* C05: RaggedArray._reduce (raggedarray/__init__.py L253-276) — law-free in op *)
Section Reduce.
Variable A : Type.
Variable dflt : A.                   (* stands for "whatever numpy leaves there"; never observed on non-empty rows *)
Variable op : A -> A -> A.

Definition zslice (d : list A) (i j : Z) : list A := ztake (j - i) (zdrop i d).
Definition fold1 (l : list A) : A := match l with [] => dflt | x :: xs => fold_left op xs x end.

(* np.ufunc.reduceat; indices must be valid positions *)
Fixpoint reduceat_aux (d : list A) (idx : list Z) : list A :=
  match idx with
  | [] => []
  | i :: rest =>
      let j := match rest with [] => zlen d | j :: _ => j end in
      (if i <? j then fold1 (zslice d i j) else znth dflt d i) :: reduceat_aux d rest
  end.
Definition reduceat (d : list A) (idx : list Z) : option (list A) :=
  if forallb (fun i => (0 <=? i) && (i <? zlen d)) idx then Some (reduceat_aux d idx) else None.

(* np.searchsorted(sorted, x, side="left") = number of elements < x *)
Definition searchsorted_left (l : list Z) (x : Z) : Z := zlen (filter (fun y => y <? x) l).

Definition reduce_model (e : A) (d : list A) (ls : list Z) : option (list A) :=
  let n := zlen ls in
  let starts := excl_prefix ls in
  let patch r := map2 (fun l v => if l =? 0 then e else v) ls r in
  if zsum ls =? 0 then Some (patch (repeat e (Z.to_nat n)))
  else if last ls 1 =? 0 then
    let k := searchsorted_left starts (last starts 0) in
    match reduceat d (ztake k starts) with
    | None => None
    | Some r => Some (patch (r ++ repeat e (Z.to_nat (n - k))))
    end
  else match reduceat d starts with None => None | Some r => Some (patch r) end.

Definition fold_row (e : A) (r : list A) : A := match r with [] => e | x :: xs => fold_left op xs x end.
Definition spec_reduce (e : A) (d : list A) (ls : list Z) := map (fold_row e) (segments d ls).
End Reduce.

Example red1 : reduce_model Z 0 Z.add 0 [1;2;3;4;5;6] [0;3;0;0;2;1;0] = Some [0;6;0;0;9;6;0]. Proof. reflexivity. Qed.
Example red2 : reduce_model Z 0 Z.mul 1 [1;2;3;4;5;6] [0;3;0;0;2;1;0] = Some [1;6;1;1;20;6;1]. Proof. reflexivity. Qed.
Example red3 : reduce_model Z 0 Z.add 0 [] [0;0] = Some [0;0]. Proof. reflexivity. Qed.
Example red4 : reduce_model Z 0 Z.add 0 [7] [1] = Some [7]. Proof. reflexivity. Qed.
