From Coq Require Import ZifyBool.
From NPS Require Import ListAux PySlice NumpySem Scatter BuildIdx RaOps Denote UfuncProof StructProof Struct2 SelRows RLE Index RowsSpec GeomProof.
Open Scope Z_scope.

Section P.
Variable A : Type.

Lemma concat_combine (X Y : list (list A)) : map zlen Y = map zlen X -> concat (map2 (@combine A A) X Y) = combine (concat X) (concat Y).
Proof.
  revert Y; induction X as [|x X IH]; intros [|y Y] H; cbn in H; try discriminate; [reflexivity|].
  injection H as H1 H2. cbn [map2 concat]. rewrite IH by assumption.
  clear IH H2. revert y H1. induction x as [|a x IHx]; intros [|b y] H1; cbn in *; unfold zlen in *; cbn in *; try lia; [reflexivity|].
  f_equal. apply IHx. lia.
Qed.

Lemma zlen_combine (x y : list A) : zlen y = zlen x -> zlen (combine x y) = zlen x.
Proof. unfold zlen. rewrite combine_length. lia. Qed.

Lemma map_zlen_map2_combine (X Y : list (list A)) : map zlen Y = map zlen X -> map zlen (map2 (@combine A A) X Y) = map zlen X.
Proof.
  revert Y; induction X as [|x X IH]; intros [|y Y] H; cbn in H; try discriminate; [reflexivity|].
  injection H as H1 H2. cbn [map2 map]. now rewrite zlen_combine, IH.
Qed.

Lemma map2_map2_combine {M} (g : M -> A * A -> A) (Ms : list (list M)) (X Y : list (list A)) :
  map2 (map2 g) Ms (map2 (@combine A A) X Y) = map2 (fun mrow xy => map2 g mrow (combine (fst xy) (snd xy))) Ms (combine X Y).
Proof.
  revert X Y; induction Ms as [|m Ms IH]; intros X Y; [reflexivity|].
  destruct X as [|x X]; [reflexivity|]. destruct Y as [|y Y]; [reflexivity|]. cbn [map2 combine fst snd]. f_equal. apply IH.
Qed.

(* np.where(mask, x, y) with three ragged arrays of one shape picks cell by cell, and the result has the mask's shape *)
Theorem where_correct (M : list (list bool)) (X Y : list (list A)) : map zlen X = map zlen M -> map zlen Y = map zlen M ->
  rmap fr_rows (ra_where (fr_of_rows M) (fr_of_rows X) (fr_of_rows Y)) = Ok (spec_where M X Y).
Proof.
  intros HX HY. unfold ra_where, fr_of_rows, fr_rows. cbn [fst snd].
  assert (Hl : forall (T : Type) (R : list (list T)), map zlen R = map zlen M -> length (concat R) = length (concat M)).
  { intros T R H. pose proof (f_equal zsum H) as E. rewrite !(zsum_lens _) in E. unfold zlen in E. lia. }
  rewrite (Hl A X HX), (Hl A Y HY), !Nat.eqb_refl. cbn [andb rmap fst snd]. f_equal.
  assert (HXY : map zlen Y = map zlen X) by congruence.
  rewrite <- (concat_combine X Y HXY).
  rewrite (segments_map2 bool (A * A) A (pick A) M (map2 (@combine A A) X Y)) by (rewrite map_zlen_map2_combine; congruence).
  unfold spec_where. apply map2_map2_combine.
Qed.

Theorem where_scalar_correct (M : list (list bool)) (X : list (list A)) (y : A) : map zlen X = map zlen M ->
  rmap fr_rows (ra_where_s (fr_of_rows M) (fr_of_rows X) y) = Ok (spec_where_s M X y).
Proof.
  intros HX. unfold ra_where_s, fr_of_rows, fr_rows. cbn [fst snd].
  assert (Hl : length (concat X) = length (concat M)).
  { pose proof (f_equal zsum HX) as E. rewrite !(zsum_lens _) in E. unfold zlen in E. lia. }
  rewrite Hl, Nat.eqb_refl. cbn [rmap fst snd]. f_equal.
  apply (segments_map2 bool A A (fun (b : bool) (a : A) => if b then a else y) M X HX).
Qed.

(* zeros_like / ones_like: the operand's row lengths, the value in every cell *)
Theorem like_correct (R : list (list A)) (c : A) :
  fr_rows (ra_like (fr_of_rows R) c) = map (fun r => repeat c (length r)) R.
Proof.
  unfold ra_like, fr_of_rows, fr_rows. cbn [fst snd].
  replace (repeat c (Z.to_nat (zsum (map zlen R)))) with (concat (map (fun r : list A => repeat c (length r)) R)).
  - rewrite <- (segments_concat_rows A (map (fun r => repeat c (length r)) R)) at 2. f_equal.
    rewrite map_map. apply map_ext. intros r. unfold zlen. now rewrite repeat_length.
  - induction R as [|r R IH]; [reflexivity|]. cbn [map concat zsum]. rewrite IH.
    pose proof (zsum_nonneg _ (all_nonneg_lens A R)) as Hnn. change (zlen r) with (Z.of_nat (length r)). rewrite Z2Nat.inj_add by lia. rewrite Nat2Z.id. now rewrite repeat_app.
Qed.

(* concatenation along the columns: row i of the result is the concatenation of the operands' rows i *)
Lemma zip_rows_nth (xs : list (list (list A))) : forall n i, (i < n)%nat ->
  nth i (zip_rows xs n) [] = concat (map (fun x => nth i x []) xs).
Proof.
  intros n; revert xs; induction n as [|n IH]; intros xs i Hi; [lia|]. cbn [zip_rows].
  destruct i as [|i]; cbn [nth].
  - f_equal. apply map_ext. intros x. now destruct x.
  - rewrite IH by lia. f_equal. rewrite map_map. apply map_ext. intros x. destruct x; [destruct i|]; reflexivity.
Qed.
Lemma zip_rows_length (xs : list (list (list A))) n : length (zip_rows xs n) = n.
Proof. revert xs; induction n as [|n IH]; intros xs; [reflexivity|]. cbn [zip_rows length]. now rewrite IH. Qed.
Theorem concat1_correct (xs : list (list (list A))) :
  let R := fr_rows (ra_concat1 xs) in
  length R = min_len xs /\ forall i, (i < min_len xs)%nat -> nth i R [] = concat (map (fun x => nth i x []) xs).
Proof.
  cbn zeta. unfold ra_concat1, fr_of_rows, fr_rows. cbn [fst snd]. rewrite segments_concat_rows.
  split; [apply zip_rows_length|]. intros i Hi. now apply zip_rows_nth.
Qed.
End P.

(* get_column_values(j) = ra[lengths > j, j]: the j-th elements of exactly the rows that reach column j, in row order *)
Lemma mask_filter_rows {A} (R : list (list A)) (j : Z) :
  mask_filter R (col_mask (map zlen R) j) = filter (fun r => j <? zlen r) R.
Proof. unfold col_mask. induction R as [|r R IH]; [reflexivity|]. cbn [map mask_filter filter]. rewrite IH. reflexivity. Qed.

Lemma np_item_in_range {A} (r : list A) (j : Z) (d : A) : 0 <= j < zlen r -> np_item r j = Ok (nth (Z.to_nat j) r d).
Proof.
  intros H. unfold np_item, py_index, py_norm_index.
  replace ((j <? - zlen r) || (j >=? zlen r)) with false by lia. replace (j <? 0) with false by lia.
  destruct (nth_error r (Z.to_nat j)) as [x|] eqn:E.
  - now rewrite (nth_error_nth r (Z.to_nat j) d E).
  - apply nth_error_None in E. unfold zlen in H. lia.
Qed.

Theorem get_column_values_correct {A} (d : A) (R : list (list A)) (j : Z) : 0 <= j ->
  spec_getitem R (IRowCol (RMany (RMask (col_mask (map zlen R) j))) (CInt j))
  = Ok (RFlat (map (fun r => nth (Z.to_nat j) r d) (filter (fun r => j <? zlen r) R))).
Proof.
  intros Hj. unfold spec_getitem. cbn [element_pairs is_int_typed spec_rows sel_rows]. unfold np_mask.
  unfold col_mask. rewrite !map_length, Nat.eqb_refl. cbn [rmap rbind].
  change (map (fun l => j <? l) (map zlen R)) with (col_mask (map zlen R) j). rewrite mask_filter_rows.
  induction R as [|r R IH]; [reflexivity|]. cbn [filter]. destruct (j <? zlen r) eqn:E; [|exact IH].
  cbn [map rsequence]. rewrite (np_item_in_range r j d) by lia.
  cbn [rmap] in IH. destruct (rsequence (map (fun row : list A => np_item row j) (filter (fun r0 : list A => j <? zlen r0) R))) as [l|]; cbn [rmap] in *; [|discriminate].
  inversion IH. reflexivity.
Qed.
