#!/usr/bin/env python3
"""Rewrites section 10 of DESIGN.md from tools/design_sec10.md, filling the seeded-change table and the mutation-sweep summary from
seeded/RESULTS.json and selftest/sweep_*.json (run by hand after those change)."""
import glob, json, pathlib, re
ROOT = pathlib.Path(__file__).resolve().parents[1]
tmpl = (ROOT / "tools" / "design_sec10.md").read_text()
res = json.loads((ROOT / "seeded" / "RESULTS.json").read_text()) if (ROOT / "seeded" / "RESULTS.json").exists() else {}
rows = ["| id | the change | needs to manifest | caught by (quick tier) — smallest failing case reported |", "|---|---|---|---|"]
for d in sorted(glob.glob(str(ROOT / "seeded" / "C*-[mwxyzvu]*"))):
    m = json.loads(open(d + "/meta.json").read()); sid = m["id"]; r = res.get(sid, {})
    cell = "; ".join(f"{k.split('/')[0]}: " + ("`" + v["smallest_failing_case"][:90].replace("|", "/").replace("`", "'") + "`" if v["caught"] else "**missed**") for k, v in sorted(r.items())) or "not run"
    rows.append(f"| {sid} | {m['summary'][:230].replace('|', '/')} | {m.get('needs_to_manifest', '')[:200].replace('|', '/')} | {cell} |")
s7 = ROOT / "selftest" / "RESULTS_seed7.json"
if s7.exists():
    r7 = json.loads(s7.read_text()); missed = sorted(k for k, v in r7.items() if not all(x["caught"] for x in v.values()))
    tmpl = tmpl.replace("SEED7_SUMMARY", f"{len(r7) - len(missed)} of {len(r7)} are caught" + (f" (missed under that seed: {', '.join(missed)})." if missed else "."))
else:
    tmpl = tmpl.replace("SEED7_SUMMARY", "(run pending).")
w4 = ROOT / "tools" / "design_wave4.md"
tmpl = tmpl.replace("WAVE4_TEXT", w4.read_text() if w4.exists() else "(evaluation in progress)")
w5 = ROOT / "tools" / "design_wave5.md"
tmpl = tmpl.replace("WAVE5_TEXT", w5.read_text() if w5.exists() else "")
w7 = ROOT / "tools" / "design_wave7.md"
tmpl = tmpl.replace("WAVE7_TEXT", w7.read_text() if w7.exists() else "")
w6 = ROOT / "tools" / "design_wave6.md"
tmpl = tmpl.replace("WAVE6_TEXT", w6.read_text() if w6.exists() else "")
tmpl = tmpl.replace("N_SEEDED", str(len(rows) - 2)).replace("SEEDED_TABLE", "\n".join(rows))
sw = []
tot = [0, 0, 0]
for f in sorted(glob.glob(str(ROOT / "selftest" / "sweep_round2" / "sweep_*.json"))):
    r = json.loads(open(f).read()); s = [x for x in r if x["tests_pass"]]; fl = [x for x in s if any(v == "flagged" for v in x["checks"].values())]
    tot[0] += len(r); tot[1] += len(s); tot[2] += len(fl)
    sw.append(f"| `{r[0]['file'] if r else f}` | {len(r)} | {len(s)} | {len(fl)} | {len(s) - len(fl)} |")
triage = (ROOT / "selftest" / "sweep_triage.md").read_text() if (ROOT / "selftest" / "sweep_triage.md").exists() else "(triage pending)"
if sw:
    tmpl = tmpl.replace("SWEEP_RESULTS", "`tools/sweep_all.sh` (single-point AST mutants of every source file: comparison / arithmetic / shift operator swaps, constants ±1, boolean flips, "
                        "`left`↔`right`, dropped unary minus, `minimum`↔`maximum`, deleted statement-level calls such as `self.ravel()`; each mutant first runs the pinned suite, survivors run the "
                        "checks of the properties anchored in the file):\n\n| file | mutants | still pass the pinned suite | flagged by a check | not flagged |\n|---|---|---|---|---|\n"
                        + "\n".join(sw) + f"\n| **total** | {tot[0]} | {tot[1]} | {tot[2]} | {tot[1] - tot[2]} |\n\n" + triage)
else:
    tmpl = tmpl.replace("SWEEP_RESULTS", "(sweep results pending)")
n_thm = sum(len(re.findall(r"^Theorem", open(f).read(), re.M)) for f in glob.glob(str(ROOT / "coq" / "Props" / "C*.v")))
tmpl = tmpl.replace("119 property theorems", f"{n_thm} property theorems").replace("67 files", f"{len(glob.glob(str(ROOT / 'coq' / 'Proofs' / '*.v')))} files")
d = (ROOT / "DESIGN.md").read_text()
import subprocess
n_fix = subprocess.run(["git", "-C", "/repo", "log", "--oneline"], capture_output=True, text=True).stdout.count(" fix:")
n_gen = sum(len(re.findall(r"^Definition gen_", open(f).read(), re.M)) for f in glob.glob(str(ROOT / "coq" / "Gen" / "K_*.v")))
kf = json.loads((ROOT / "known_findings.json").read_text())
n_f = max(int(''.join(ch for ch in e['id'][1:] if ch.isdigit())) for e in kf if e['id'].startswith('F'))
line = (f"End-of-build numbers (regenerated with section 10): {n_thm} property theorems in `coq/Props` (all closed under the global context), {n_gen} definitions re-translated from the "
        f"source on every run, {n_fix} `fix:` commits in `/repo` for the findings F1–F{n_f} (one known finding, K1), {len(rows) - 2} validated seeded changes in `seeded/`.")
d = re.sub(r"End-of-build numbers \(regenerated with section 10\):.*\n", "", d)
d = d.replace("the unchanged tree and their disposition; section 6 is the trusted base.\n", "the unchanged tree and their disposition; section 6 is the trusted base.\n" + line + "\n", 1)
a = d.find("--------------------------------------------------------------------------------\n## 10. As built")
b = d.find("--------------------------------------------------------------------------------\n## Appendix A")
if a < 0: a = b
d = d[:a] + tmpl.rstrip("\n") + "\n\n" + d[b:]
(ROOT / "DESIGN.md").write_text(d)
print("DESIGN.md section 10 updated:", n_thm, "theorems;", len(rows) - 2, "seeded changes;", tot)
