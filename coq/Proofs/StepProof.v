From Coq Require Import ZifyBool Permutation.
From NPS Require Import ListAux PySlice NumpySem Scatter BuildIdx SliceAP XorBroadcast XorProof Denote MaterialiseWF RLE RLEProof RLEOps SetItem CanonProof RLEIndex RoundTrip BinaryProof.
Open Scope Z_scope.

(* C15: stride subsetting of a run-length array: boundaries e -> ceil(e / k) *)
Section Step.
Variable A : Type.
Variable d : A.
Variable eqb : A -> A -> bool.
Hypothesis eqb_eq : forall x y, eqb x y = true -> x = y.
Variable k : Z.
Hypothesis Hk : 1 <= k.
Definition cdiv (i : Z) : Z := (i + k - 1) / k.

Lemma cdiv_spec i : 0 <= i -> i <= cdiv i * k < i + k.
Proof.
  intros Hi. unfold cdiv. pose proof (Z.div_mod (i + k - 1) k ltac:(lia)) as E. pose proof (Z.mod_pos_bound (i + k - 1) k ltac:(lia)) as Hm. nia.
Qed.
Lemma cdiv_mono i j : 0 <= i <= j -> cdiv i <= cdiv j.
Proof. intros H. unfold cdiv. apply Z.div_le_mono; lia. Qed.
Lemma cdiv_lt q i : 0 <= i -> 0 <= q -> (q < cdiv i <-> q * k < i).
Proof. intros Hi Hq. pose proof (cdiv_spec i Hi). split; intros; nia. Qed.

(* values of zero-length runs are irrelevant *)
Lemma broadcast_ext : forall (vs vs' : list A) ls, length vs = length vs' ->
  (forall i, 0 < nth i ls 0 -> nth i vs d = nth i vs' d) -> spec_broadcast A vs ls = spec_broadcast A vs' ls.
Proof.
  induction vs as [|v vs IH]; intros [|v' vs'] ls Hlen H; try discriminate; [reflexivity|].
  destruct ls as [|l ls]; [reflexivity|]. unfold spec_broadcast in *. cbn [map2 concat]. f_equal.
  - destruct (Z.lt_ge_cases 0 l) as [Hl|Hl]; [pose proof (H 0%nat Hl) as E; cbn [nth] in E; now rewrite E|]. replace (Z.to_nat l) with 0%nat by lia. reflexivity.
  - apply IH; [cbn in Hlen; lia|]. intros i Hi. apply (H (S i) Hi).
Qed.

Lemma wi_map_cdiv l : Forall (fun x => 0 <= x) l -> CanonProof.weakly_increasing l -> CanonProof.weakly_increasing (map cdiv l).
Proof.
  induction l as [|x l IH]; intros Hf Hw; [exact I|]. destruct l as [|y l]; [exact I|]. destruct Hw as [Hxy Hw].
  inversion Hf as [|? ? Hx Hf']; subst. cbn [map]. split; [apply cdiv_mono; lia|]. now apply IH.
Qed.

Lemma map_decomp {X Y} (h : X -> Y) : forall pre (l : list X) a b post, map h l = pre ++ a :: b :: post ->
  exists pre_o x y post_o, l = pre_o ++ x :: y :: post_o /\ h x = a /\ h y = b.
Proof.
  induction pre as [|p pre IH]; intros l a b post H.
  - destruct l as [|x [|y l]]; cbn in H; try discriminate. injection H as H1 H2 _. exists [], x, y, l. auto.
  - destruct l as [|z l]; [discriminate|]. cbn [map app] in H. injection H as _ H. destruct (IH l a b post H) as (po & x & y & pt & -> & Hx & Hy).
    exists (z :: po), x, y, pt. auto.
Qed.

Variable ls : list Z.
Variable vs : list A.
Hypothesis Hc : canon A ls vs.
Hypothesis Hne : ls <> [].
Let n := zsum ls.
Notation dn := (dense A d vs ls).

Lemma evs_wi : CanonProof.weakly_increasing (evs ls) /\ Forall (fun x => 0 <= x <= n) (evs ls).
Proof.
  destruct Hc as [Hl _]. assert (Hnn : all_nonneg ls) by (eapply Forall_impl; [|exact Hl]; cbn; intros; lia).
  unfold evs. split.
  - apply wi_app_last.
    + unfold excl_prefix. generalize 0. clear - Hnn. induction Hnn as [|l ls0 Hl _ IH]; intros acc; [exact I|].
      cbn [excl_from]. destruct ls0 as [|l' ls']; [exact I|]. cbn [excl_from] in *. split; [lia|]. apply (IH (acc + l)).
    + eapply Forall_impl; [|apply (excl_from_bounds 0 ls Hnn)]. cbn; intros; lia.
  - apply Forall_app. split; [|constructor; [pose proof (zsum_nonneg ls Hnn); unfold n; lia|constructor]].
    eapply Forall_impl; [|apply (excl_from_bounds 0 ls Hnn)]. cbn. unfold n. intros; lia.
Qed.

(* inside a run the dense array is constant: consecutive boundaries e < e' and e <= p < e' *)
Lemma dense_in_run pre e e' post p : evs ls = pre ++ e :: e' :: post -> e <= p < e' -> dn p = dn e.
Proof.
  intros Eq Hp. destruct evs_wi as [Hw Hr]. rewrite Eq in Hw, Hr.
  assert (He : 0 <= e /\ e' <= n).
  { rewrite Forall_forall in Hr. split; [apply (Hr e)|apply (Hr e')]; apply in_or_app; right; [now left|right; now left]. }
  symmetry. apply (dense_same_run A d ls vs); [exact Hc|unfold n in *; lia|unfold n in *; lia|].
  apply ssr_between; [lia|]. intros x Hx Hxp. rewrite Eq in Hx. eapply (wi_middle pre e e' post x p); eauto. lia.
Qed.

(* a function that is v_i on run i *)
Fixpoint runs_ok (h : Z -> A) (acc : Z) (ls0 : list Z) (vs0 : list A) : Prop :=
  match ls0, vs0 with
  | l :: ls', v :: vs' => (forall p, acc <= p < acc + l -> h p = v) /\ runs_ok h (acc + l) ls' vs'
  | [], [] => True
  | _, _ => False
  end.
Lemma runs_ok_ext h h' : forall ls0 vs0 acc, all_nonneg ls0 -> (forall p, acc <= p -> h p = h' p) -> runs_ok h acc ls0 vs0 -> runs_ok h' acc ls0 vs0.
Proof.
  induction ls0 as [|l ls0 IH]; intros [|v vs0] acc Hnn He H; try exact H. inversion Hnn as [|? ? Hl0 Hnn0]; subst. destruct H as [H1 H2]. split.
  - intros p Hp. rewrite <- He by lia. now apply H1.
  - apply IH; [assumption| |exact H2]. intros p Hp. apply He. lia.
Qed.
Lemma runs_ok_dense : forall ls0 vs0 acc, all_nonneg ls0 -> length vs0 = length ls0 ->
  runs_ok (fun p => nth (Z.to_nat (p - acc)) (spec_broadcast A vs0 ls0) d) acc ls0 vs0.
Proof.
  induction ls0 as [|l ls0 IH]; intros [|v vs0] acc Hnn Hlen; try discriminate; [exact I|]. inversion Hnn; subst.
  unfold spec_broadcast. cbn [map2 concat runs_ok]. fold (spec_broadcast A vs0 ls0). split.
  - intros p Hp. rewrite app_nth1 by (rewrite repeat_length; lia). apply (nth_repeat_lt A d). lia.
  - apply (runs_ok_ext (fun p => nth (Z.to_nat (p - (acc + l))) (spec_broadcast A vs0 ls0) d)); [assumption| |apply IH; [assumption|cbn in Hlen; lia]].
    intros p Hp. rewrite app_nth2 by (rewrite repeat_length; lia). rewrite repeat_length. f_equal. lia.
Qed.

Lemma stride_gen (h : Z -> A) : forall ls0 vs0 acc, all_nonneg ls0 -> 0 <= acc -> runs_ok h acc ls0 vs0 ->
  spec_broadcast A vs0 (diffs (map cdiv (excl_from acc ls0 ++ [acc + zsum ls0])))
  = map (fun q => h (q * k)) (ap (cdiv acc) (cdiv (acc + zsum ls0) - cdiv acc) 1).
Proof.
  induction ls0 as [|l ls0 IH]; intros [|v vs0] acc Hnn Hacc H; try contradiction.
  - cbn [excl_from app map zsum]. replace (acc + 0) with acc by lia. replace (cdiv acc - cdiv acc) with 0 by lia. reflexivity.
  - inversion Hnn as [|? ? Hl Hnn']; subst. destruct H as [H1 H2]. pose proof (zsum_nonneg ls0 Hnn') as Hs.
    cbn [excl_from app map zsum].
    assert (E : map cdiv (excl_from (acc + l) ls0 ++ [acc + (l + zsum ls0)]) = cdiv (acc + l) :: tl (map cdiv (excl_from (acc + l) ls0 ++ [acc + (l + zsum ls0)]))).
    { destruct ls0; cbn [excl_from app map tl zsum]; [do 2 f_equal; lia|reflexivity]. }
    rewrite E, diffs_cons2, <- E. rewrite spec_broadcast_cons.
    specialize (IH vs0 (acc + l) Hnn' ltac:(lia) H2). replace (acc + l + zsum ls0) with (acc + (l + zsum ls0)) in IH by lia. rewrite IH.
    pose proof (cdiv_mono acc (acc + l) ltac:(lia)) as M1. pose proof (cdiv_mono (acc + l) (acc + (l + zsum ls0)) ltac:(lia)) as M2.
    replace (cdiv (acc + (l + zsum ls0)) - cdiv acc) with ((cdiv (acc + l) - cdiv acc) + (cdiv (acc + (l + zsum ls0)) - cdiv (acc + l))) by lia.
    rewrite (map_ap_split A (fun q => h (q * k))) by lia. replace (cdiv acc + (cdiv (acc + l) - cdiv acc)) with (cdiv (acc + l)) by lia.
    f_equal. symmetry. apply (map_ap_const A (fun q => h (q * k))); [lia|]. intros q Hq. apply H1.
    pose proof (cdiv_spec acc Hacc). assert (0 <= q) by (unfold cdiv in *; pose proof (Z.div_pos (acc + k - 1) k ltac:(lia) ltac:(lia)); lia).
    assert (q * k < acc + l) by (apply (cdiv_lt q (acc + l)); lia). nia.
Qed.

(* the k-strided run-length array before canonicalisation decodes to every k-th element *)
Theorem stride_decode : decode A (map cdiv (evs ls), vs) = map (fun q => dn (q * k)) (ap 0 (cdiv n) 1).
Proof.
  pose proof Hc as [Hl Hlen]. assert (Hnn : all_nonneg ls) by (eapply Forall_impl; [|exact Hl]; cbn; intros; lia).
  assert (Hc0 : cdiv 0 = 0) by (unfold cdiv; apply Z.div_small; lia).
  unfold RLE.decode, evs, excl_prefix. cbn [fst snd].
  pose proof (stride_gen dn ls vs 0 Hnn ltac:(lia)) as H. rewrite Hc0 in H. replace (0 + zsum ls) with (zsum ls) in H by lia.
  replace (cdiv (zsum ls) - 0) with (cdiv n) in H by (unfold n; lia). apply H.
  apply (runs_ok_ext (fun p => nth (Z.to_nat (p - 0)) (spec_broadcast A vs ls) d)); [assumption| |now apply runs_ok_dense].
  intros p _. unfold dense. now replace (p - 0) with p by lia.
Qed.

(* the code's _step_subset for a positive step *)
Theorem step_subset_pos : decode A (step_subset A eqb (evs ls, vs) k) = map (fun q => dn (q * k)) (ap 0 (cdiv n) 1)
  /\ CanonProof.no_adj A eqb (snd (step_subset A eqb (evs ls, vs) k)).
Proof.
  unfold step_subset. replace (k <? 0) with false by lia. replace (Z.abs k) with k by lia. cbn [fst snd].
  change (map (fun i => (i + k - 1) / k) (evs ls)) with (map cdiv (evs ls)).
  pose proof Hc as [Hl Hlen]. destruct evs_wi as [Hw Hr].
  assert (Hlen' : length (map cdiv (evs ls)) = S (length vs)).
  { rewrite map_length. unfold evs, excl_prefix. rewrite app_length, excl_from_length. cbn. lia. }
  assert (Hw' : CanonProof.weakly_increasing (map cdiv (evs ls))).
  { apply wi_map_cdiv; [eapply Forall_impl; [|exact Hr]; cbn; intros; lia|exact Hw]. }
  destruct (remove_empty_decode A (map cdiv (evs ls)) vs Hlen') as (Hd1 & Hl1 & _).
  pose proof (remove_empty_wi (map cdiv (evs ls)) vs Hlen' Hw') as Hw1.
  destruct (remove_empty A (map cdiv (evs ls)) vs) as [ev2 vs2]. cbn [fst snd] in *. split.
  - rewrite (join_runs_decode A eqb eqb_eq ev2 vs2 Hl1 Hw1), Hd1. apply stride_decode.
  - now apply join_runs_canonical.
Qed.
End Step.
Print Assumptions step_subset_pos.
