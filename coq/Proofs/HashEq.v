From Coq Require Import ZifyBool.
From NPS Require Import ListAux PySlice NumpySem BuildIdx RLE Hash MapSpec SetItem HashProof.
Open Scope Z_scope.

(* C11: HashTable.__eq__ (hashtable.py, after repair F29) decides equality of the two DICTIONARIES, whatever the moduli and the order
   of the keys inside the buckets *)
Section HEq.
Variable V : Type.
Variable dv : V.
Variable veq : V -> V -> bool.
Hypothesis veq_spec : forall a b, veq a b = true <-> a = b.
Notation table := (table V).
Notation assoc := (assoc V).
Notation aget := (aget V).
Notation Inv := (Inv V dv).

Lemma list_eqb_v_spec : forall a b, list_eqb_v V veq a b = true <-> a = b.
Proof.
  induction a as [|x a IH]; intros [|y b]; cbn [list_eqb_v]; try (split; [discriminate|discriminate]); [split; reflexivity|].
  rewrite Bool.andb_true_iff, veq_spec, IH. split; [intros [-> ->]; reflexivity|intros E; injection E as -> ->; split; reflexivity].
Qed.

Definition value (d : assoc) (k : Z) : V := match aget d k with Some v => v | None => dv end.

Lemma keys_present t d : Inv t d -> forall k, In k (concat (t_keys t)) <-> present V d k = true.
Proof. intros [_ [Hk _]] k. rewrite Hk. unfold present. destruct (aget d k); split; congruence. Qed.
Lemma keys_nodup t d : Inv t d -> NoDup (concat (t_keys t)).
Proof. intros [(_ & _ & H & _) _]. exact H. Qed.

Lemma contains_present t d ks : Inv t d -> contains V t ks = map (present V d) ks.
Proof.
  intros HI. unfold contains. apply map_ext. intros k. fold (bucket V t k). unfold present.
  pose proof (In_bucket V dv t d k HI) as Hin. fold (bucket V t k) in Hin.
  destruct (existsb (Z.eqb k) (bucket V t k)) eqn:Ee.
  - apply existsb_exists in Ee. destruct Ee as (x & Hx & Ex). assert (x = k) by lia. subst x. apply Hin in Hx. destruct (aget d k); congruence.
  - destruct (aget d k) eqn:Ea; [|reflexivity]. exfalso. assert (Hk : In k (bucket V t k)) by (apply Hin; congruence).
    assert (existsb (Z.eqb k) (bucket V t k) = true) by (apply existsb_exists; exists k; split; [exact Hk|lia]). congruence.
Qed.

Lemma getv_all_present t d ks : Inv t d -> forallb (present V d) ks = true -> getv V dv t ks = Ok (map (value d) ks).
Proof. intros HI Hp. rewrite (getv_correct V dv t d ks HI), (spec_getv_char V dv). rewrite Hp. reflexivity. Qed.

Theorem tbl_eq_correct t1 t2 d1 d2 : Inv t1 d1 -> Inv t2 d2 ->
  (tbl_eq V veq dv t1 t2 = true <-> forall k, aget d1 k = aget d2 k).
Proof.
  intros H1 H2. unfold tbl_eq. set (K1 := concat (t_keys t1)). set (K2 := concat (t_keys t2)).
  pose proof (keys_present t1 d1 H1) as P1. pose proof (keys_present t2 d2 H2) as P2. fold K1 in P1. fold K2 in P2.
  pose proof (keys_nodup t1 d1 H1) as N1. pose proof (keys_nodup t2 d2 H2) as N2. fold K1 in N1. fold K2 in N2.
  rewrite (contains_present t2 d2 K1 H2).
  assert (Hall1 : forallb (present V d1) K1 = true) by (apply forallb_forall; intros k Hk; now apply P1).
  split.
  - (* the code says equal -> the dictionaries are equal *)
    intros E. destruct (Nat.eqb (length K1) (length K2)) eqn:El; cbn [negb orb] in E; [|discriminate].
    destruct (forallb (fun b => b) (map (present V d2) K1)) eqn:Ec; cbn [negb] in E; [|discriminate].
    apply Nat.eqb_eq in El.
    assert (Hall2 : forallb (present V d2) K1 = true).
    { rewrite forallb_forall in *. intros k Hk. apply (Ec (present V d2 k)). now apply in_map. }
    rewrite (getv_all_present t1 d1 K1 H1 Hall1), (getv_all_present t2 d2 K1 H2 Hall2) in E. apply list_eqb_v_spec in E.
    assert (Hincl : incl K1 K2) by (intros k Hk; apply P2; rewrite forallb_forall in Hall2; now apply Hall2).
    assert (Hincl' : incl K2 K1) by (apply NoDup_length_incl; [exact N1|lia|exact Hincl]).
    intros k. destruct (present V d1 k) eqn:Ep.
    + assert (Hk : In k K1) by now apply P1.
      assert (Ev : value d1 k = value d2 k).
      { clear - E Hk. induction K1 as [|x K IH]; [contradiction|]. cbn [map] in E. injection E as E0 E'. destruct Hk as [->|Hk]; [exact E0|now apply IH]. }
      assert (Ep2 : present V d2 k = true) by (rewrite forallb_forall in Hall2; now apply Hall2).
      unfold value, present in *. destruct (aget d1 k), (aget d2 k); congruence.
    + assert (Hn2 : present V d2 k = false).
      { destruct (present V d2 k) eqn:Ep2; [|reflexivity]. apply P2 in Ep2. apply Hincl' in Ep2. apply P1 in Ep2. congruence. }
      unfold present in *. destruct (aget d1 k), (aget d2 k); congruence.
  - (* equal dictionaries -> the code says equal *)
    intros E.
    assert (Hp : forall k, present V d1 k = present V d2 k) by (intros k; unfold present; now rewrite E).
    assert (Hincl : incl K1 K2) by (intros k Hk; apply P2; rewrite <- Hp; now apply P1).
    assert (Hincl' : incl K2 K1) by (intros k Hk; apply P1; rewrite Hp; now apply P2).
    assert (El : length K1 = length K2) by (apply Nat.le_antisymm; apply NoDup_incl_length; assumption).
    replace (Nat.eqb (length K1) (length K2)) with true by (symmetry; now apply Nat.eqb_eq). cbn [negb orb].
    assert (Hall2 : forallb (present V d2) K1 = true) by (apply forallb_forall; intros k Hk; rewrite <- Hp; now apply P1).
    assert (Ec : forallb (fun b => b) (map (present V d2) K1) = true).
    { apply forallb_forall. intros b Hb. apply in_map_iff in Hb. destruct Hb as (k & <- & Hk). rewrite forallb_forall in Hall2. now apply Hall2. }
    rewrite Ec. cbn [negb]. rewrite (getv_all_present t1 d1 K1 H1 Hall1), (getv_all_present t2 d2 K1 H2 Hall2).
    apply list_eqb_v_spec. apply map_ext. intros k. unfold value. now rewrite E.
Qed.
End HEq.
Print Assumptions tbl_eq_correct.
