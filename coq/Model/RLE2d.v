From NPS Require Import ListAux PySlice NumpySem Scatter BuildIdx XorBroadcast RLE RLEOps RaOps.
Open Scope Z_scope.

(* C17: RunLength2dArray / RunLengthRaggedArray (runlengtharray.py L600-927).
   Both keep two ragged arrays in lock-step: row i of `indices` and row i of `values`.  The ragged operations
   on them are those proved in C01-C09, so the model works on their rows. *)
Record rl2 := { r_idx : list (list Z) ; r_val : list (list Z) ; r_len : option Z }.

(* RunLengthRaggedArray.from_ragged_array L843-867: starts of runs plus the row end, rebased to the row *)
Definition from_ragged (rows : list (list Z)) : rl2 :=
  {| r_idx := map (fun row => run_starts row ++ [zlen row]) rows ;
     r_val := map (fun row => map (fun p => nth (Z.to_nat p) row 0) (run_starts row)) rows ;
     r_len := None |}.
(* RunLength2dArray.from_array L726-748: starts only; the last column always starts a run *)
Definition force_last (m : list bool) : list bool := match m with [] => [] | _ => removelast m ++ [true] end.
Definition from_matrix (rows : list (list Z)) : rl2 :=
  let starts row := flatnonzero (force_last (change_mask None row)) in
  {| r_idx := map starts rows ;
     r_val := map (fun row => map (fun p => nth (Z.to_nat p) row 0) (starts row)) rows ;
     r_len := Some (match rows with [] => 0 | r :: _ => zlen r end) |}.

(* a row as a 1-D RunLengthArray (IndexableMixin.__getitem__ with an integer, L172-186) *)
Definition row_rla (x : rl2) (ev vs : list Z) : rla Z :=
  match r_len x with None => (ev, vs) | Some n => (ev ++ [n], vs) end.
Definition rl2_rows (x : rl2) : list (rla Z) := map2 (row_rla x) (r_idx x) (r_val x).
Definition rl2_decode (x : rl2) : list (list Z) := map (decode Z) (rl2_rows x).

(* row selection keeps both components aligned *)
Definition rl2_select (x : rl2) (s : rowsel) : res rl2 :=
  rbind (sel_rows s (r_idx x)) (fun i => rmap (fun v => {| r_idx := i ; r_val := v ; r_len := r_len x |}) (sel_rows s (r_val x))).
Definition rl2_row (x : rl2) (i : Z) : res (rla Z) :=
  rbind (np_item (r_idx x) i) (fun ev => rmap (fun vs => row_rla x ev vs) (np_item (r_val x) i)).
Definition rl2_elem (x : rl2) (i j : Z) : res Z := rbind (rl2_row x i) (fun r => get_position Z r j).

(* integer column, ragged variant (L87-91): the run containing the column *)
Definition rl2_col (x : rl2) (j : Z) : list Z :=
  flat_map (fun p => let '(ev, vs) := p in
             let c := if j <? 0 then last ev 0 + j else j in
             mask_filter vs (map2 (fun a b => (a <=? c) && (b >? c)) (removelast ev) (tl ev)))
           (combine (r_idx x) (r_val x)).

(* row reductions L657-673, L869-887 *)
Definition rl2_sum (x : rl2) : list Z :=
  map (fun p => let '(ev, vs) := p in
         match r_len x with
         | None => zsum (map2 Z.mul vs (diffs ev))
         | Some n => zsum (map2 Z.mul (removelast vs) (diffs ev)) + last vs 0 * (n - last ev 0)
         end) (combine (r_idx x) (r_val x)).
Definition rl2_max (x : rl2) : list Z := map zmax_list (r_val x).
Definition rl2_argmax (x : rl2) : list Z :=
  map (fun p => let '(ev, vs) := p in nth (Z.to_nat (first_index_of (zmax_list vs) vs)) ev 0) (combine (r_idx x) (r_val x)).
(* ravel L910-917, concatenate L924-927, ufunc with scalar L633-655 *)
Definition rl2_ravel (x : rl2) : rla Z :=
  let lasts := map (fun ev => last ev 0) (r_idx x) in
  let offs := excl_prefix lasts in
  (flat_map (fun p => map (Z.add (snd p)) (removelast (fst p))) (combine (r_idx x) offs) ++ [zsum lasts], concat (r_val x)).
Definition rl2_concat (xs : list rl2) : rl2 :=
  {| r_idx := flat_map r_idx xs ; r_val := flat_map r_val xs ; r_len := None |}.
Definition rl2_map (g : Z -> Z) (x : rl2) : rl2 := {| r_idx := r_idx x ; r_val := map (map g) (r_val x) ; r_len := r_len x |}.
Definition rl2_map_col (g : Z -> Z -> Z) (x : rl2) (col : list Z) : rl2 :=
  {| r_idx := r_idx x ; r_val := map2 (fun vs c => map (fun v => g v c) vs) (r_val x) col ; r_len := r_len x |}.

(* col_counts L904-908 (ragged): run-length array over the columns *)
Definition rl2_col_counts (x : rl2) : rla Z :=
  let lens := map (fun ev => last ev 0) (r_idx x) in
  let sorted := map fst (stable_sort (map (fun l => (l, tt)) lens)) in
  let uniq := dedup_sorted sorted in                       (* np.unique(shape[-1], return_counts=True) *)
  let idx := 0 :: map fst uniq in
  let vals := map (fun c => zlen (r_idx x) - c) (0 :: cumsum (map snd uniq)) in
  (idx, removelast vals).

(* _col_sum L675-698 *)
Definition rl2_col_sum (x : rl2) : rla Z :=
  let positions := concat (r_idx x) in
  let L := match r_len x with None => fold_left Z.max positions 0 | Some n => n end in
  let vrows := match r_len x with None => map (fun vs => vs ++ [0]) (r_val x) | Some _ => r_val x end in
  let values := concat vrows in
  let d := map2 Z.sub values (0 :: removelast values) in           (* np.diff(unsafe_extend_left(values)) *)
  let row_starts := excl_prefix (map zlen (r_idx x)) in
  let d := scatter_set d row_starts (map (fun vs => hd 0 vs) (r_val x)) in
  let sorted := stable_sort (combine positions d) in
  let ev := map fst sorted ++ [L] in
  let vs := cumsum (map snd sorted) in
  remove_empty Z ev vs.

(* 2-D remove_empty_intervals L801-824, one row *)
Fixpoint remove_empty_row (ev vs : list Z) : list Z * list Z :=
  match ev, vs with
  | e :: ((e' :: _) as ev'), v :: vs' =>
      let '(re, rv) := remove_empty_row ev' vs' in
      if e =? e' then (e :: tl re, rv) else (e :: re, v :: rv)
  | _, _ => (ev, vs)
  end.
Definition step_subset_row (step : Z) (ev vs : list Z) : list Z * list Z :=
  let '(ev, vs) := if step <? 0 then (map (fun x => last ev 0 - x) (rev ev), rev vs) else (ev, vs) in
  let k := Z.abs step in
  let ev := if k =? 1 then ev else map (fun i => (i + k - 1) / k) ev in
  remove_empty_row ev vs.

Definition find_run (f : Z -> Z -> bool) (ev : list Z) : option Z :=
  match flatnonzero (map2 f (removelast ev) (tl ev)) with c :: _ => Some c | [] => None end.
Definition set_first_z (l : list Z) (v : Z) := match l with [] => [] | _ :: r => v :: r end.
Definition set_last_z (l : list Z) (v : Z) := match l with [] => [] | _ => removelast l ++ [v] end.
Definition win {X} (l : list X) (s e : Z) : list X :=      (* ragged_slice of one row; negative end from the row end *)
  let e' := if e <? 0 then zlen l + e else Z.min e (zlen l) in ztake (Z.max (e' - s) 0) (zdrop s l).

(* column range of one row, _getitem_tuple L92-160; None = the code would mis-shape (window empty in this row) *)
Definition cut_row (rev_ : bool) (start_ stop_ sc ec : option Z) (ev vs : list Z) : (list Z * list Z) * bool :=
  match sc, ec with
  | None, None => ((ev, vs), false)
  | _, _ =>
    let e := option_map (fun c => c + 2) ec in
    let e2 := option_map (fun c => c + 1) ec in
    let is_empty := match sc, e with Some s, Some e => s >=? e | _, _ => false end in
    let e := match sc, e with Some s, Some e => Some (Z.max (s + 1) e) | _, _ => e end in
    let e2 := match sc, e2 with Some s, Some e2 => Some (Z.max s e2) | _, _ => e2 end in
    let s0 := match sc with Some s => s | None => 0 end in
    let i := win ev s0 (match e with Some e => e | None => zlen ev end) in
    let v := win vs s0 (match e2 with Some e => e | None => zlen vs end) in
    let i := if rev_ then
               let i := match start_ with Some st => set_last_z i (st + 1) | None => i end in
               match stop_ with Some sp => set_first_z i (sp + 1) | None => i end
             else
               let i := match stop_ with Some sp => set_last_z i sp | None => i end in
               match start_ with Some st => set_first_z i st | None => i end in
    let i := map (fun a => a - hd 0 i) i in
    ((i, v), is_empty)
  end.

Definition col_range_row (start stop : option Z) (step : Z) (ev vs : list Z) : option (list Z * list Z) :=
  let rowlen := last ev 0 in
  let rev_ := step <? 0 in
  let clampb (b : Z) := if b >=? 0 then Z.min rowlen b else Z.max 0 (rowlen + b) in
  let stop_ := option_map clampb stop in
  let start_ := option_map clampb start in
  (* Some (Some c): run found; Some None: np.nonzero found nothing in this row; None: selector absent *)
  let start_col0 : option (option Z) :=
    if rev_ then option_map (fun sp => Some (match find_run (fun a b => (a <=? sp + 1) && (b >? sp + 1)) ev with Some c => c | None => zlen ev - 1 end)) stop_
    else None in
  let stop_col0 : option (option Z) :=
    if rev_ then None
    else option_map (fun sp => Some (match find_run (fun a b => (b >=? sp) && (a <? sp)) ev with Some c => c | None => -1 end)) stop_ in
  let stop_col1 : option (option Z) :=
    if rev_ then match start_ with Some st => Some (find_run (fun a b => (b >=? st + 1) && (a <? st + 1)) ev) | None => stop_col0 end
    else stop_col0 in
  let start_col1 : option (option Z) :=
    if rev_ then start_col0
    else match start_ with Some st => Some (find_run (fun a b => (a <=? st) && (b >? st)) ev) | None => start_col0 end in
  let missing (o : option (option Z)) := match o with Some None => true | _ => false end in
  if missing start_col1 || missing stop_col1 then None else
  let flat (o : option (option Z)) := match o with Some (Some c) => Some c | _ => None end in
  let '(iv, is_empty) := cut_row rev_ start_ stop_ (flat start_col1) (flat stop_col1) ev vs in
  let '(i, v) := step_subset_row step (fst iv) (snd iv) in
  Some (if is_empty then set_first_z i 0 else i, v).

Definition early_empty (start stop : option Z) (step : Z) : bool :=
  match start, stop with
  | Some st, Some sp => if step <? 0 then (st <=? sp) && (st >? 0) else (st >=? sp) && (sp >? 0)
  | _, _ => false
  end.
Definition rl2_col_range (x : rl2) (sl : pyslice) : res rl2 :=
  let step := step_of sl in
  if step =? 0 then Refused else
  if early_empty (sl_start sl) (sl_stop sl) step then
    Ok {| r_idx := map (fun _ => [0]) (r_idx x) ; r_val := map (fun _ => []) (r_idx x) ; r_len := r_len x |}
  else
  let rows := map2 (col_range_row (sl_start sl) (sl_stop sl) step) (r_idx x) (r_val x) in
  if forallb (fun o => match o with Some _ => true | None => false end) rows then
    let rs := flat_map (fun o => match o with Some p => [p] | None => [] end) rows in
    Ok {| r_idx := map fst rs ; r_val := map snd rs ; r_len := r_len x |}
  else Refused.

(* RunLength2dArray.from_intervals L755-782: two zero-filled ragged arrays of shape starts_after_zero + 1 + ends_before_end, then
   indices[k, saz] = start, values[k, saz] = value, indices[ends_before_end, -1] = end; row by row *)
Definition interval_row (n value : Z) (se : Z * Z) : list Z * list Z :=
  let '(s, e) := se in
  let saz := s >? 0 in let ebe := e <? n in
  let len := (if saz then 1 else 0) + 1 + (if ebe then 1 else 0) in
  let zeros := repeat 0 (Z.to_nat len) in
  let pos := if saz then 1 else 0 in
  let idx := zset zeros pos s in
  let vals := zset zeros pos value in
  let idx := if ebe then zset idx (len - 1) e else idx in
  (idx, vals).
Definition from_intervals (starts ends : list Z) (n value : Z) : rl2 :=
  let rows := map (interval_row n value) (combine starts ends) in
  {| r_idx := map fst rows ; r_val := map snd rows ; r_len := Some n |}.
(* the indicator row of [s, e) scaled by the value *)
Definition indicator_row (n value s e : Z) : list Z :=
  repeat 0 (Z.to_nat s) ++ repeat value (Z.to_nat (e - s)) ++ repeat 0 (Z.to_nat (n - e)).
