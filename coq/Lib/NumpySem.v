From NPS Require Import ListAux PySlice.
Open Scope Z_scope.

(* results: any Python exception is a refusal *)
Inductive res (X : Type) := Ok (x : X) | Refused.
Arguments Ok {X} x. Arguments Refused {X}.
Definition rbind {X Y} (r : res X) (f : X -> res Y) : res Y := match r with Ok x => f x | Refused => Refused end.
Definition rmap {X Y} (f : X -> Y) (r : res X) : res Y := match r with Ok x => Ok (f x) | Refused => Refused end.
Fixpoint rsequence {X} (l : list (res X)) : res (list X) :=
  match l with
  | [] => Ok []
  | r :: rs => match r, rsequence rs with Ok x, Ok xs => Ok (x :: xs) | _, _ => Refused end
  end.

Definition valid_slice (s : pyslice) : bool := negb (step_of s =? 0).

(* a[i], i a Python int: negative wrap, IndexError out of range *)
Definition np_item {X} (l : list X) (i : Z) : res X :=
  match py_index l i with Some x => Ok x | None => Refused end.
(* a[idx], idx an integer list/array *)
Definition np_take {X} (l : list X) (idx : list Z) : res (list X) := rsequence (map (np_item l) idx).
(* a[mask], mask a boolean array of the same length *)
Fixpoint mask_filter {X} (l : list X) (m : list bool) : list X :=
  match l, m with x :: l', b :: m' => if b then x :: mask_filter l' m' else mask_filter l' m' | _, _ => [] end.
Definition np_mask {X} (l : list X) (m : list bool) : res (list X) :=
  if Nat.eqb (length l) (length m) then Ok (mask_filter l m) else Refused.
(* a[start:stop:step] (default-free version of py_getslice; positions are always in range) *)
Definition slice_list {X} (l : list X) (s : pyslice) : list X :=
  flat_map (fun p => match nth_error l (Z.to_nat p) with Some x => [x] | None => [] end) (py_positions (zlen l) s).
Definition np_slice {X} (l : list X) (s : pyslice) : res (list X) :=
  if valid_slice s then Ok (slice_list l s) else Refused.

(* first-axis selectors that keep the axis *)
Inductive rowsel :=
| RSlice (s : pyslice)
| RList (l : list Z)
| RMask (m : list bool)
| RAll.                                   (* Ellipsis / slice(None) *)
Definition sel_rows {X} (s : rowsel) (l : list X) : res (list X) :=
  match s with
  | RSlice sl => np_slice l sl
  | RList idx => np_take l idx
  | RMask m => np_mask l m
  | RAll => Ok l
  end.
