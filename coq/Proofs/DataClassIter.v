From Coq Require Import ZifyBool.
From NPS Require Import ListAux PySlice NumpySem DataClass DataClassProof.
Open Scope Z_scope.

(* C18: iterating an npdataclass object yields its entries, in order: entry i consists of the i-th element of every field *)
Section It.
Variable E : Type.
Variable d : E.

Lemma np_item_nth {X} (dx : X) (l : list X) (i : nat) : (i < length l)%nat -> np_item l (Z.of_nat i) = Ok (nth i l dx).
Proof.
  intros H. unfold np_item, py_index, py_norm_index, zlen.
  replace ((Z.of_nat i <? - Z.of_nat (length l)) || (Z.of_nat i >=? Z.of_nat (length l))) with false by lia.
  replace (Z.of_nat i <? 0) with false by lia. rewrite Nat2Z.id. now rewrite (nth_error_nth' l dx H).
Qed.

Lemma obj_len_cols k (R : list (list E)) : (1 <= k)%nat -> obj_len E (cols E d k R) = zlen R.
Proof.
  intros Hk. unfold obj_len, cols. destruct k as [|k]; [lia|]. cbn [seq map]. unfold zlen. now rewrite map_length.
Qed.

Theorem obj_iter_entries (k : nat) (R : list (list E)) : (1 <= k)%nat ->
  obj_iter E (cols E d k R) = map (fun row => Ok (map (fun j => nth j row d) (seq 0 k))) R.
Proof.
  intros Hk. unfold obj_iter. rewrite (obj_len_cols k R Hk). unfold zlen. rewrite Nat2Z.id.
  apply nth_ext with (d := Refused) (d' := Refused); [now rewrite !map_length, seq_length|].
  intros i Hi. rewrite map_length, seq_length in Hi.
  rewrite (nth_indep _ _ (obj_item E (cols E d k R) (Z.of_nat 0)) ) by (now rewrite map_length, seq_length).
  rewrite (map_nth (fun i => obj_item E (cols E d k R) (Z.of_nat i)) (seq 0 (length R)) 0%nat i). rewrite seq_nth by assumption. cbn [plus].
  rewrite (obj_item_entry E d k R (Z.of_nat i) Hk). rewrite (np_item_nth [] R i Hi). cbn [rmap].
  rewrite (nth_indep _ _ ((fun row => Ok (map (fun j => nth j row d) (seq 0 k))) [])) by (now rewrite map_length).
  now rewrite (map_nth (fun row => Ok (map (fun j => nth j row d) (seq 0 k))) R [] i).
Qed.

(* the number of entries yielded is the common length *)
Corollary obj_iter_length (k : nat) (R : list (list E)) : (1 <= k)%nat -> zlen (obj_iter E (cols E d k R)) = obj_len E (cols E d k R).
Proof. intros Hk. rewrite (obj_iter_entries k R Hk), (obj_len_cols k R Hk). unfold zlen. now rewrite map_length. Qed.
End It.

Example iter_ex : obj_iter Z [[1; 2; 3]; [10; 20; 30]] = [Ok [1; 10]; Ok [2; 20]; Ok [3; 30]]. Proof. reflexivity. Qed.
