From Coq Require Import ZifyBool.
From NPS Require Import ListAux PySlice NumpySem Scatter BuildIdx XorBroadcast XorProof RLE RLEProof RLEOps RaOps RLE2d BinaryProof StepNeg RLEIndex RL2Proof RL2Col RLEReduce.
Open Scope Z_scope.

(* C17: row-wise max and argmax of a ragged run-length array: the maximum of the run values is the maximum of the row, and the
   start of the first run holding it is the first position of the maximum in the decoded row *)
Fixpoint fio_from (v : Z) (i : Z) (l : list Z) : Z := match l with [] => i | x :: r => if x =? v then i else fio_from v (i + 1) r end.
Lemma first_index_of_from v l : first_index_of v l = fio_from v 0 l.
Proof. unfold first_index_of. generalize 0. induction l as [|x l IH]; intros i; cbn; [reflexivity|]. destruct (x =? v); [reflexivity|apply IH]. Qed.

Lemma fio_repeat_ne v x n i r : x <> v -> fio_from v i (repeat x n ++ r) = fio_from v (i + Z.of_nat n) r.
Proof.
  intros Hne. revert i; induction n as [|n IH]; intros i; cbn [repeat app fio_from]; [f_equal; lia|].
  replace (x =? v) with false by lia. rewrite IH. f_equal. lia.
Qed.

(* position, in the decoded row, of the first occurrence of v = the start of the first run with value v (if v occurs) *)
Lemma fio_broadcast v : forall (vs ls : list Z) acc, canon Z ls vs -> In v vs ->
  fio_from v acc (spec_broadcast Z vs ls) = nth (Z.to_nat (fio_from v 0 vs)) (excl_from acc ls) 0.
Proof.
  induction vs as [|x vs IH]; intros ls acc [Hl Hlen] Hin; [destruct Hin|].
  destruct ls as [|l ls]; [discriminate|]. inversion Hl as [|? ? Hl1 Hls]; subst. cbn [length] in Hlen.
  rewrite spec_broadcast_cons. cbn [excl_from fio_from].
  destruct (x =? v) eqn:E.
  - destruct (Z.to_nat l) as [|n] eqn:En; [lia|]. cbn [repeat app fio_from]. rewrite E. reflexivity.
  - rewrite fio_repeat_ne by lia. rewrite Z2Nat.id by lia.
    destruct Hin as [->|Hin]; [lia|].
    rewrite (IH ls (acc + l)) by (try split; auto; lia).
    assert (Hs : forall k r, fio_from v (k + 1) r = fio_from v k r + 1).
    { intros k r; revert k; induction r as [|y r IHr]; intros k; cbn [fio_from]; [lia|]. destruct (y =? v); [lia|]. rewrite IHr. reflexivity. }
    rewrite (Hs 0 vs).
    assert (Hge : forall k r, k <= fio_from v k r) by (intros k r; revert k; induction r as [|y r IHr]; intros k; cbn [fio_from]; [lia|]; destruct (y =? v); [lia|]; specialize (IHr (k + 1)); lia).
    specialize (Hge 0 vs). replace (Z.to_nat (fio_from v 0 vs + 1)) with (S (Z.to_nat (fio_from v 0 vs))) by lia. reflexivity.
Qed.

Lemma zmax_list_In (l : list Z) : l <> [] -> In (zmax_list l) l.
Proof.
  destruct l as [|x l]; [congruence|]. intros _. unfold zmax_list.
  assert (G : forall l acc, fold_left Z.max l acc = acc \/ In (fold_left Z.max l acc) l).
  { induction l0 as [|y l0 IH]; intros acc; cbn [fold_left]; [now left|]. destruct (IH (Z.max acc y)) as [H|H].
    - rewrite H. destruct (Z.max_spec acc y) as [[_ ->]|[_ ->]]; [right; now left|now left].
    - right. now right. }
  destruct (G l x) as [H|H]; [rewrite H; now left|now right].
Qed.

Lemma map2_row_rla_none (x : rl2) : r_len x = None -> forall I V, map2 (row_rla x) I V = combine I V.
Proof.
  intros Hn. induction I as [|ev I IH]; intros [|vs V]; try reflexivity. cbn [map2 combine]. rewrite IH. unfold row_rla. now rewrite Hn.
Qed.

(* one canonical row *)
Lemma row_max_argmax (ls vs : list Z) : canon Z ls vs -> ls <> [] ->
  let d := decode Z (evs ls, vs) in
  d <> [] /\ zmax_list vs = zmax_list d /\ nth (Z.to_nat (first_index_of (zmax_list vs) vs)) (evs ls) 0 = first_index_of (zmax_list d) d.
Proof.
  intros [Hl Hlen] Hne. cbn zeta.
  assert (Hd : decode Z (evs ls, vs) = spec_broadcast Z vs ls) by (unfold decode; cbn [fst snd]; now rewrite diffs_evs).
  rewrite Hd.
  assert (Hvs : vs <> []) by (destruct vs; [destruct ls; [congruence|discriminate]|congruence]).
  assert (Hdn : spec_broadcast Z vs ls <> []).
  { destruct vs as [|v vs]; [congruence|]. destruct ls as [|l ls]; [discriminate|]. inversion Hl; subst.
    rewrite spec_broadcast_cons. destruct (Z.to_nat l) eqn:En; [lia|discriminate]. }
  assert (Hmax : zmax_list vs = zmax_list (spec_broadcast Z vs ls)).
  { pose proof (rl_max_correct (evs ls, vs)) as M. unfold rl_max, decode in M. cbn [fst snd] in M. rewrite diffs_evs in M.
    specialize (M Hl Hlen Hvs). unfold zmax_list. destruct vs as [|v vs]; [congruence|].
    destruct (spec_broadcast Z (v :: vs) ls) as [|y d]; [destruct M|exact M]. }
  split; [exact Hdn|]. split; [exact Hmax|].
  rewrite <- Hmax. rewrite !first_index_of_from.
  rewrite (fio_broadcast (zmax_list vs) vs ls 0 (conj Hl Hlen) (zmax_list_In vs Hvs)).
  unfold evs, excl_prefix.
  assert (Hlt : (Z.to_nat (fio_from (zmax_list vs) 0 vs) < length (excl_from 0 ls))%nat).
  { rewrite excl_from_length, <- Hlen. pose proof (zmax_list_In vs Hvs) as Hin. clear -Hin.
    assert (G : forall v l k, In v l -> 0 <= k -> (Z.to_nat (fio_from v k l - k) < length l)%nat).
    { intros v l; induction l as [|x l IHl]; intros k Hin' Hk; [destruct Hin'|]. cbn [fio_from length]. destruct (x =? v) eqn:E; [lia|].
      destruct Hin' as [->|Hin']; [lia|]. specialize (IHl (k + 1) Hin' ltac:(lia)).
      assert (k + 1 <= fio_from v (k + 1) l) by (clear; revert k; induction l as [|y l IH]; intros k; cbn [fio_from]; [lia|]; destruct (y =? v); [lia|]; specialize (IH (k + 1)); lia).
      lia. }
    specialize (G _ _ 0 Hin ltac:(lia)). now rewrite Z.sub_0_r in G. }
  now rewrite app_nth1.
Qed.

Theorem rl2_max_argmax_correct (rows : list (list Z * list Z)) :
  Forall (fun p => canon Z (fst p) (snd p) /\ fst p <> []) rows ->
  rl2_max (of_runs rows) = map zmax_list (rl2_decode (of_runs rows)) /\
  rl2_argmax (of_runs rows) = argmax_rows (rl2_decode (of_runs rows)).
Proof.
  intros H. unfold rl2_max, rl2_argmax, argmax_rows, rl2_decode, rl2_rows.
  rewrite (map2_row_rla_none (of_runs rows) eq_refl). unfold of_runs. cbn [r_idx r_val r_len].
  induction H as [|[ls vs] rows [Hc Hne] _ [IH1 IH2]]; [split; reflexivity|]. cbn [map combine flat_map fst snd] in *.
  destruct (row_max_argmax ls vs Hc Hne) as (Hdn & Hmax & Harg). cbn zeta in *.
  split.
  - f_equal; [exact Hmax|exact IH1].
  - destruct (decode Z (evs ls, vs)) as [|y dd] eqn:Ed; [congruence|]. cbn [app]. f_equal; [exact Harg|exact IH2].
Qed.
