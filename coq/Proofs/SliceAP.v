From NPS Require Import ListAux PySlice.
Open Scope Z_scope.

Lemma ap_nat_length s k n : length (ap_nat s k n) = n.
Proof. revert s; induction n; intros; cbn; auto. Qed.

Lemma ap_nat_nth s k n i d : (i < n)%nat -> nth i (ap_nat s k n) d = s + Z.of_nat i * k.
Proof.
  revert s i; induction n as [|n IH]; intros s i Hi; [exfalso; lia|].
  destruct i as [|i]; cbn [ap_nat nth]; [cbn; ring|]. rewrite IH by lia. rewrite Nat2Z.inj_succ. ring.
Qed.

Lemma znth_ap s n k i d : 0 <= i < n -> znth d (ap s n k) i = s + i * k.
Proof. intros H. unfold znth, ap. rewrite ap_nat_nth by lia. rewrite Z2Nat.id by lia. reflexivity. Qed.

Lemma ap_nat_map (f : Z -> Z) s k n s' k' :
  (forall i, (i < n)%nat -> f (s + Z.of_nat i * k) = s' + Z.of_nat i * k') ->
  map f (ap_nat s k n) = ap_nat s' k' n.
Proof.
  revert s s'; induction n as [|n IH]; intros s s' H; [reflexivity|].
  cbn [ap_nat map]. f_equal.
  - specialize (H O ltac:(lia)). cbn in H. rewrite Z.add_0_r in H. now rewrite Z.add_0_r in H.
  - apply IH. intros i Hi. specialize (H (S i) ltac:(lia)).
    replace (s + k + Z.of_nat i * k) with (s + Z.of_nat (S i) * k) by (rewrite Nat2Z.inj_succ; ring).
    replace (s' + k' + Z.of_nat i * k') with (s' + Z.of_nat (S i) * k') by (rewrite Nat2Z.inj_succ; ring). exact H.
Qed.

(* positions selected by a slice are inside the sequence *)
Lemma div_mul_le a b : 0 < b -> b * (a / b) <= a.
Proof. intros. apply Z.mul_div_le; lia. Qed.

Lemma py_positions_range len sl i : 0 <= len -> step_of sl <> 0 -> 0 <= i < py_count len sl ->
  0 <= py_start len sl + i * step_of sl < len.
Proof.
  intros Hlen Hk Hi. unfold py_count in Hi. unfold py_start, py_stop, adj in *.
  set (k := step_of sl) in *. 
  destruct (sl_start sl) as [a|], (sl_stop sl) as [b|]; cbn zeta in *.
  all: repeat match goal with
       | H : context[if ?c then _ else _] |- _ => destruct c eqn:?
       | |- context[if ?c then _ else _] => destruct c eqn:?
       end; try lia.
  all: match goal with
       | H : 0 <= ?j < ?x / ?d + 1 |- _ =>
           let Hd := fresh in assert (Hd : d * (x / d) <= x) by (apply div_mul_le; lia);
           assert (j * d <= x) by nia; nia
       end.
Qed.

(* slicing an arithmetic progression gives an arithmetic progression *)
Lemma ap_getslice s L c sl : 0 <= L -> step_of sl <> 0 ->
  map (znth 0 (ap s L c)) (py_positions L sl)
  = ap (s + py_start L sl * c) (py_count L sl) (step_of sl * c).
Proof.
  intros HL Hk. unfold py_positions, ap at 2 3.
  apply ap_nat_map. intros i Hi.
  assert (Hr : 0 <= Z.of_nat i < py_count L sl) by lia.
  pose proof (py_positions_range L sl (Z.of_nat i) HL Hk Hr) as Hp.
  rewrite znth_ap by lia. ring.
Qed.
Print Assumptions ap_getslice.

Lemma ap_nat_seq s n : ap_nat s 1 n = map (fun j => s + Z.of_nat j) (seq 0 n).
Proof.
  revert s; induction n as [|n IH]; intros s; [reflexivity|]. cbn [ap_nat seq map]. f_equal; [lia|].
  rewrite IH, <- seq_shift, map_map. apply map_ext. intros j. lia.
Qed.


Lemma ap_reindex s c k : ap s c k = map (fun q => s + q * k) (ap 0 c 1).
Proof.
  unfold ap. symmetry. apply ap_nat_map. intros i _. lia.
Qed.
Lemma map_ap_ext {X} (g g' : Z -> X) c : (forall q, 0 <= q < c -> g q = g' q) -> map g (ap 0 c 1) = map g' (ap 0 c 1).
Proof.
  intros H. apply map_ext_in. intros q Hq. apply H. unfold ap in Hq. rewrite ap_nat_seq in Hq. apply in_map_iff in Hq as (j & <- & Hj).
  apply in_seq in Hj. lia.
Qed.
