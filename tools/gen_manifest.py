#!/usr/bin/env python3
"""Writes /verif/MANIFEST.json from the table below (run by hand after changing what a check covers)."""
import json, pathlib
ROOT = pathlib.Path(__file__).resolve().parents[1]

COMMON_NOTE = ("Trusted base: Coq 8.16.1 kernel (coqc full .vo build; vm_compute only in Examples/witnesses; no native_compute; coqchk -o in the "
               "thorough tier); axioms: none (every Print Assumptions answers 'Closed under the global context', parsed on every run); "
               "extraction with ExtrOcamlBasic only (no Extract Constant; Z/N/positive/nat stay inductive) + oracle/driver.ml; the Python harness "
               "(case generators, canonicalisation, term<->Python mapping); numpy primitive semantics as modelled in coq/Lib (validated by every "
               "correspondence case); numpy's own element operations/result dtypes where the property says 'what numpy gives'. "
               "Modelled, not verified: numpy itself, CPython slice semantics as transcribed in Lib/PySlice.v, file I/O. See DESIGN.md section 6.")

# id -> (technique, level text, design ref, extra note)
CHECKS = {
 "C01": ("Coq proof (geometry, index-builder, ravel/unravel theorems) + correspondence of the extracted model with the implementation",
         "Theorems: the codes built by RaggedShape.__init__ are the exclusive-prefix-sum geometry of the lengths for every length vector; the index builder "
         "equals the concatenation of the rows' progressions; flat/ragged round trips. Tie: differential run of every observer of the property (len, size, shape, "
         "lengths, iter, tolist, ravel, astype, to/from numpy, save/load, RaggedShape.starts/ends/lengths/size, ravel/unravel_multi_index) against the extracted model.",
         "4.1", ""),
 "C02": ("Coq proof of getitem_correct over the whole index grammar + translator-regenerated slice kernel tied by a decision-procedure lemma + correspondence",
         "Theorem getitem_correct: for every well-formed representation and every index of the grammar, the model returns what the selectors give on the plain list of "
         "rows, refusals in both directions. The column-slice length kernel is re-translated from raggedshape.py on every run and proved equal to the hand kernel.",
         "4.2", ""),
 "C03": ("Coq proof of setitem_correct (refinement to list-of-rows assignment) + translator tie + correspondence",
         "Theorem setitem_correct: the addressed cells receive the values (scalar / flat / column / ragged), everything else, row count and lengths unchanged; mismatching "
         "ragged values refused. XOR-broadcast lemma raw_broadcast_correct for the column case.", "4.3", ""),
 "C04": ("Coq proof of ufunc2_correct (parametric in the element operation) + correspondence over dtype pairs with numpy as the element-level oracle",
         "Theorem ufunc2_correct: ufunc(ra, scalar / (n,1) column / equal-shape ragged) is the row-wise map2 for any element operation; mismatching shapes refused. "
         "Result dtype and element operation are numpy's own applied to row i alone (the property's wording).", "4.4", ""),
 "C05": ("Coq proof of reduce_correct (law-free folds), argmax_correct/argmin_correct + correspondence",
         "Theorem reduce_correct: reduceat + identity patch-up equals the per-row left fold with the identity on empty rows for every placement of empty rows; "
         "argmax/argmin pipeline returns the first position of each non-empty row's extremum.", "4.5", ""),
 "C06": ("Coq proof of chain_correct (selection chains of any depth on lazy views) and indistinguishable_read + correspondence on programs",
         "Theorems derived_denote / chain_correct / indistinguishable_read: every lazily derived representation is well formed and denotes the spec's selection; chains of any "
         "depth; two representations with equal rows are indistinguishable by any index. Programs over views are run against freshly built equal arrays.", "4.6", ""),
 "C07": ("Coq proofs cumsum_correct, accumulate_correct, diff_correct, sort_correct, unique_correct + correspondence",
         "Each scan/reordering equals the per-row numpy definition for every placement of empty rows; cumsum/accumulate over abstract groups (integer wrap-around inside "
         "the theorem); float accumulate through the padded-matrix path compared bit-exactly with numpy per row.", "4.7", ""),
 "C08": ("Coq proofs concat0_correct, subset_correct, ragged_slice_correct, nonzero_correct, padded_correct + correspondence",
         "Structural functions are polymorphic list functions; theorems state row-structure preservation. where / axis-1 concatenation / like-functions are decided by "
         "correspondence against the spec functions (stated, see evidence stated_not_proved).", "4.8", ""),
 "C09": ("Coq proofs colsum_correct, col_counts_correct + correspondence incl. integers beyond 2^53",
         "Column sums count every row that reaches the column once; col_counts is the suffix count of lengths; mean and get_column_values by correspondence against the "
         "spec (corollaries).", "4.9", ""),
 "C10": ("Coq proof of run_sim / C10_partial (heap-with-lazy-views machine refines value semantics on safe histories) + refuting witness + correspondence on history pairs",
         "The full statement is false of the faithful model (C10_refuted_witness, reproduced on the real code: known finding K1); C10_partial proves it for histories in which no "
         "write hits a buffer another array still names. History pairs with/without an inserted read are run on the implementation.", "4.10", ""),
 "C11": ("Coq proof table_is_dictionary (refinement of the bucket table to an association list over every history) + correspondence on histories",
         "Invariant established by the constructor for every duplicate-free key set and modulus, preserved by assignment; lookups equal the dictionary's; absent keys refused.", "4.11", ""),
 "C12": ("Coq proof count_correct / count_history / split-and-order invariance + correspondence on batch histories",
         "After any sequence of batches every key reports initial + occurrences in the concatenation; non-keys contribute nothing.", "4.12", ""),
 "C13": ("Coq proof unpack_pack, get_correct, sliding_window_correct over N/Z with explicit mod 2^64 + correspondence",
         "Registers as base-2^b digit strings; windows across register boundaries via the two-register shift lemma; any length.", "4.13", ""),
 "C14": ("Coq proof to_array_from_array, from_array_canonical, decode_from_array_R (float PER) + correspondence incl. NaN/-0.0",
         "The code's decoder inverts its encoder for every non-empty array; boundaries canonical; no equal neighbours.", "4.14", ""),
 "C15": ("Coq proof get_slice_correct (every slice, every bound), get_position_correct, start_to_end_decode, step_subset_pos/neg + correspondence",
         "Run-length slicing decodes to Python's dense[a:b:c] for all bounds and steps; integer reads; mask / list / window indexing by correspondence.", "4.15", ""),
 "C16": ("Coq proof apply_binary_correct (arbitrary unrelated boundaries), rl_map_correct, rl_sum_correct, rl_concat_correct + correspondence",
         "Merged-boundary binary ufunc decodes to map2 of the dense arrays and has no equal neighbours.", "4.16", ""),
 "C17": ("Coq proofs rl2_select/map/concat/sum/col/ravel/elem, from_ragged_decode + correspondence for column ranges, column sums, argmax",
         "Row-wise lock-step representation; proved items 1-7 of DESIGN 4.17; column ranges / _col_sum / col_counts / argmax decided by exhaustive-small correspondence "
         "against the spec (stated, not proved).", "4.17", ""),
 "C18": ("Coq proof obj_select_entries / obj_item_entry (naturality of selectors) + correspondence on run-time generated dataclasses",
         "Applying one selector to every field equals selecting entries of the table; VarLenArray concatenation right-aligns.", "4.18", ""),
 "C19": ("Coq proof index_rows_width_independent / excl_prefix_in32 + the C02/C06 case sets run under both index widths and compared",
         "Packed 64-bit gather of (start,length) pairs equals gathering the pairs when entries fit 31 bits; implementation compared with itself across configurations.", "4.19", ""),
}

def main():
    notapp = json.loads((ROOT / "tools" / "not_applicable.json").read_text()) if (ROOT / "tools" / "not_applicable.json").exists() else []
    na_ids = {e["property_id"] for e in notapp}
    checks = []
    for pid, (tech, text, ref, extra) in CHECKS.items():
        if pid in na_ids: continue
        checks.append({
            "property_id": pid,
            "quick_cmd": f"./check {pid} --tier quick",
            "thorough_cmd": f"./check {pid} --tier thorough",
            "evidence_file": f"/verif/evidence/{pid}.json",
            "replay_cmd_template": f"./check {pid} --replay {{path}}",
            "engine": "coq-proof+correspondence",
            "level_claimed": {"category": "proof", "text": text, "design_ref": "DESIGN.md section " + ref},
            "level_note": COMMON_NOTE + (" " + extra if extra else ""),
            "technique": tech,
        })
    m = {"version": 1,
         "setup_cmd": "./setup.sh",
         "hooks": {"guard": "NPSTRUCTURES_VERIF", "enable": "no hooks are needed: the checks import npstructures from /repo's working tree (PYTHONPATH=/repo); the guard name is reserved",
                   "baseline_off_cmd": "cd /repo && /venv/bin/python -m pytest -ra -q -p no:cacheprovider --timeout=900 --continue-on-collection-errors",
                   "source_commits": [], "add_only": True},
         "engines": [{"name": "coq-proof+correspondence", "path": "/verif/check", "serves_properties": [c["property_id"] for c in checks],
                      "kind_free_text": "Coq 8.16.1 development (coq/), extracted OCaml oracle (oracle/), Python differential harness (harness/), Python-AST->Gallina translator (tools/translate.py)"}],
         "checks": checks,
         "notes": "21 genuine defects were repaired in /repo as separate `fix:` commits (known_findings.json, status fixed); one design-level defect (lazy-view aliasing, C10) is a known finding.",
         "not_applicable": notapp}
    (ROOT / "MANIFEST.json").write_text(json.dumps(m, indent=1) + "\n")
    print("MANIFEST.json:", len(checks), "checks;", len(notapp), "not applicable")

if __name__ == "__main__":
    main()
