From Coq Require Import ZifyBool.
From NPS Require Import ListAux PySlice NumpySem Scatter BuildIdx View Kernels K_view.
Open Scope Z_scope.
(* robust tie: decision procedure instead of syntactic equality, survives re-orderings and equivalent rewrites *)
Lemma tie_calc_len L a b k : 0 <= L -> k <> 0 -> gen_calc_len L a b k = calc_len L a b k.
Proof.
  intros HL Hk. unfold gen_calc_len, calc_len, norm_bound. destruct a, b; cbn zeta.
  all: brk; try lia.
  all: try (f_equal; apply div_congr; lia).
  all: try (apply div_small_neg; lia).
  all: try (symmetry; apply div_small_neg; lia).
Qed.
