From Coq Require Import ZifyBool.
From NPS Require Import ListAux PySlice NumpySem Scatter BuildIdx XorBroadcast RLE RLEOps RLEMisc.
Open Scope Z_scope.

(* C16: reductions of a run-length array computed on the run values equal the reductions of the decoded array,
   for run lengths >= 1 (canonical form: no empty run) *)
Section R.
Variable A : Type.
Lemma In_broadcast (vs : list A) : forall ls, Forall (fun l => 1 <= l) ls -> length vs = length ls ->
  forall x, In x (spec_broadcast A vs ls) <-> In x vs.
Proof.
  unfold spec_broadcast. induction vs as [|v vs IH]; intros [|l ls] Hl Hlen x; try discriminate; [reflexivity|].
  inversion Hl; subst. cbn [map2 concat]. rewrite in_app_iff, (IH ls) by (auto; cbn in Hlen; lia). cbn [In].
  split; (intros [H|H]; [left|right; exact H]).
  - apply repeat_spec in H. now subst.
  - subst. destruct (Z.to_nat l) eqn:E; [lia|]. now left.
Qed.
Lemma existsb_broadcast (p : A -> bool) vs ls : Forall (fun l => 1 <= l) ls -> length vs = length ls ->
  existsb p (spec_broadcast A vs ls) = existsb p vs.
Proof.
  intros Hl Hlen. apply eq_true_iff_eq. rewrite !existsb_exists. split; intros (x & Hx & Hp); exists x; (split; [|exact Hp]);
    now apply (In_broadcast vs ls Hl Hlen x).
Qed.
Lemma forallb_broadcast (p : A -> bool) vs ls : Forall (fun l => 1 <= l) ls -> length vs = length ls ->
  forallb p (spec_broadcast A vs ls) = forallb p vs.
Proof.
  intros Hl Hlen. apply eq_true_iff_eq. rewrite !forallb_forall. split; intros H x Hx; apply H; now apply (In_broadcast vs ls Hl Hlen x).
Qed.
End R.

Theorem rl_any_correct (r : rla bool) : Forall (fun l => 1 <= l) (diffs (fst r)) -> length (snd r) = length (diffs (fst r)) ->
  rl_any r = existsb (fun b => b) (decode bool r).
Proof. intros. unfold rl_any, decode. symmetry. now apply existsb_broadcast. Qed.
Theorem rl_all_correct (r : rla bool) : Forall (fun l => 1 <= l) (diffs (fst r)) -> length (snd r) = length (diffs (fst r)) ->
  rl_all r = forallb (fun b => b) (decode bool r).
Proof. intros. unfold rl_all, decode. symmetry. now apply forallb_broadcast. Qed.

(* max: the maximum of the values = the maximum of the decoded array (max is idempotent, so repetitions do not matter) *)
Lemma fold_max_repeat v n acc : fold_left Z.max (repeat v n) acc = if Nat.eqb n 0 then acc else Z.max acc v.
Proof.
  revert acc; induction n as [|n IH]; intros acc; [reflexivity|]. cbn [repeat fold_left]. rewrite IH.
  destruct n; cbn [Nat.eqb]; lia.
Qed.
Lemma fold_max_broadcast : forall vs ls acc, Forall (fun l => 1 <= l) ls -> length vs = length ls ->
  fold_left Z.max (spec_broadcast Z vs ls) acc = fold_left Z.max vs acc.
Proof.
  unfold spec_broadcast. induction vs as [|v vs IH]; intros [|l ls] acc Hl Hlen; try discriminate; [reflexivity|].
  inversion Hl; subst. cbn [map2 concat fold_left]. rewrite fold_left_app, fold_max_repeat.
  replace (Nat.eqb (Z.to_nat l) 0) with false by (symmetry; apply Nat.eqb_neq; lia).
  apply IH; [assumption|cbn in Hlen; lia].
Qed.
Theorem rl_max_correct (r : rla Z) : Forall (fun l => 1 <= l) (diffs (fst r)) -> length (snd r) = length (diffs (fst r)) -> snd r <> [] ->
  match decode Z r with [] => False | x :: d => rl_max r = fold_left Z.max d x end.
Proof.
  unfold rl_max, decode. destruct r as [ev vs]. cbn [fst snd]. generalize (diffs ev) as ls. intros ls Hl Hlen Hne.
  destruct vs as [|v vs]; [congruence|]. destruct ls as [|l ls]; [discriminate|]. inversion Hl; subst.
  unfold spec_broadcast. cbn [map2 concat]. destruct (Z.to_nat l) as [|n] eqn:E; [lia|]. cbn [repeat app].
  rewrite fold_left_app, fold_max_repeat.
  change (concat (map2 (fun v0 l0 => repeat v0 (Z.to_nat l0)) vs ls)) with (spec_broadcast Z vs ls).
  rewrite fold_max_broadcast by (auto; cbn in Hlen; lia).
  destruct n; cbn [Nat.eqb]; [reflexivity|]. now rewrite Z.max_id.
Qed.

(* mean = sum / length, as an exact fraction *)
Theorem rl_mean_correct (r : rla Z) : all_nonneg (diffs (fst r)) -> length (snd r) = length (diffs (fst r)) ->
  fst (rl_mean r) = zsum (decode Z r).
Proof. intros. unfold rl_mean. cbn [fst]. now apply rl_sum_correct. Qed.

Lemma map_repeat' {X Y} (g : X -> Y) v n : map g (repeat v n) = repeat (g v) n.
Proof. induction n as [|n IH]; [reflexivity|]. cbn [repeat map]. now rewrite IH. Qed.
(* histogram with weights = histogram of the decoded array, for any binning function *)
Lemma hist_bin (bin_of : Z -> nat) b : forall vs ls, all_nonneg ls -> length vs = length ls ->
  zsum (map2 (fun l v => if Nat.eqb (bin_of v) b then l else 0) ls vs) = zsum (map (fun v => if Nat.eqb (bin_of v) b then 1 else 0) (spec_broadcast Z vs ls)).
Proof.
  unfold spec_broadcast. induction vs as [|v vs IH]; intros [|l ls] Hnn Hlen; try discriminate; [reflexivity|].
  inversion Hnn; subst. cbn [map2 zsum concat]. rewrite map_app, zsum_app, <- IH by (auto; cbn in Hlen; lia).
  f_equal. rewrite map_repeat', zsum_repeat. destruct (Nat.eqb (bin_of v) b); lia.
Qed.
Theorem rl_hist_correct (bin_of : Z -> nat) (nbins : nat) (r : rla Z) : all_nonneg (diffs (fst r)) -> length (snd r) = length (diffs (fst r)) ->
  rl_hist bin_of nbins r = dense_hist bin_of nbins (decode Z r).
Proof. intros. unfold rl_hist, dense_hist, decode. apply map_ext. intros b. now apply hist_bin. Qed.
