From Coq Require Import ZifyBool.
From NPS Require Import ListAux PySlice NumpySem SelRows DataClass.
Open Scope Z_scope.

(* C18: selecting with the same selector on every field = selecting entries (rows of the table) *)
Section DCP.
Variable E : Type.
Variable d : E.
(* the columns of a table given by its entries (rows), for k fields *)
Definition cols (k : nat) (R : list (list E)) : obj E := map (fun j => map (fun row => nth j row d) R) (seq 0 k).

Lemma rsequence_const {X Y} (r : res X) (fs : list (X -> Y)) : fs <> [] ->
  rsequence (map (fun f => rmap f r) fs) = rmap (fun x => map (fun f => f x) fs) r.
Proof.
  intros Hne. destruct r as [x|]; cbn [rmap].
  - clear Hne. induction fs as [|f fs IH]; [reflexivity|]. cbn [map rsequence]. now rewrite IH.
  - destruct fs as [|f fs]; [congruence|]. reflexivity.
Qed.

Theorem obj_select_entries (k : nat) (R : list (list E)) (s : rowsel) : (1 <= k)%nat ->
  obj_select E (cols k R) s = rmap (cols k) (sel_rows s R).
Proof.
  intros Hk. unfold obj_select, cols. rewrite map_map.
  rewrite (map_ext _ (fun j => rmap (map (fun row => nth j row d)) (sel_rows s R))) by (intros j; apply sel_rows_map).
  pose proof (rsequence_const (sel_rows s R) (map (fun j => map (fun row : list E => nth j row d)) (seq 0 k))) as H.
  rewrite map_map in H. rewrite H by (destruct k; [lia|discriminate]).
  destruct (sel_rows s R); cbn [rmap]; [|reflexivity]. now rewrite map_map.
Qed.

(* integer index: one entry *)
Theorem obj_item_entry (k : nat) (R : list (list E)) (i : Z) : (1 <= k)%nat ->
  obj_item E (cols k R) i = rmap (fun row => map (fun j => nth j row d) (seq 0 k)) (np_item R i).
Proof.
  intros Hk. unfold obj_item, cols. rewrite map_map.
  rewrite (map_ext _ (fun j => rmap (fun row => nth j row d) (np_item R i))) by (intros j; apply np_item_map).
  pose proof (rsequence_const (np_item R i) (map (fun j => fun row : list E => nth j row d) (seq 0 k))) as H.
  rewrite map_map in H. rewrite H by (destruct k; [lia|discriminate]).
  destruct (np_item R i); cbn [rmap]; [|reflexivity]. now rewrite map_map.
Qed.
End DCP.
Print Assumptions obj_select_entries.

(* concatenation: the table of the concatenated object is the concatenation of the tables *)
Section DCC.
Variable E : Type.
Variable d : E.

Lemma transpose_cols_nth (os : list (obj E)) : forall n,
  transpose_cols E os n = map (fun j => concat (map (fun o => nth j o []) os)) (seq 0 n).
Proof.
  intros n. revert os. induction n as [|n IH]; intros os; [reflexivity|].
  cbn [transpose_cols]. rewrite IH. cbn [seq map]. f_equal.
  - f_equal. apply map_ext. intros o. now destruct o.
  - rewrite <- seq_shift, map_map. apply map_ext. intros j. f_equal. rewrite map_map. apply map_ext. intros o. destruct o; [destruct j|]; reflexivity.
Qed.

Lemma nth_cols k (R : list (list E)) j : (j < k)%nat -> nth j (cols E d k R) [] = map (fun row => nth j row d) R.
Proof.
  intros Hj. unfold cols.
  set (g := fun j0 : nat => map (fun row : list E => nth j0 row d) R).
  rewrite (nth_indep (map g (seq 0 k)) [] (g 0%nat)) by (now rewrite map_length, seq_length).
  rewrite map_nth. unfold g. now rewrite seq_nth.
Qed.

Lemma cols_length k R : length (cols E d k R) = k.
Proof. unfold cols. now rewrite map_length, seq_length. Qed.

(* np.concatenate([objects]): field-wise concatenation = concatenation of the entry tables *)
Theorem obj_concat_entries (k : nat) (Rs : list (list (list E))) : Rs <> [] ->
  obj_concat E (map (cols E d k) Rs) = cols E d k (concat Rs).
Proof.
  intros Hne. unfold obj_concat. destruct Rs as [|R0 Rs]; [congruence|]. cbn [map]. rewrite cols_length.
  rewrite transpose_cols_nth. unfold cols at 3. apply map_ext_in. intros j Hj. apply in_seq in Hj.
  change (cols E d k R0 :: map (cols E d k) Rs) with (map (cols E d k) (R0 :: Rs)).
  rewrite map_map. rewrite (map_ext_in _ (fun R => map (fun row => nth j row d) R)) by (intros R _; apply nth_cols; lia).
  generalize (R0 :: Rs) as L. induction L as [|R L IH]; [reflexivity|]. cbn [map concat]. now rewrite map_app, IH.
Qed.

(* equality: true exactly when every field is cell-wise equal and of the same length (for a decidable element equality) *)
Variable eqb : E -> E -> bool.
Hypothesis eqb_spec : forall x y, eqb x y = true <-> x = y.
Lemma list_eqb_iff a b : list_eqb E eqb a b = true <-> a = b.
Proof.
  revert b; induction a as [|x a IH]; intros [|y b]; cbn [list_eqb]; try (split; [discriminate|congruence]); [split; reflexivity|].
  rewrite andb_true_iff, eqb_spec, IH. split; [intros [-> ->]; reflexivity|intros H; inversion H; auto].
Qed.
Theorem obj_eqb_iff (o o' : obj E) : length o = length o' -> (obj_eqb E eqb o o' = true <-> o = o').
Proof.
  revert o'; induction o as [|f o IH]; intros [|g o'] Hl; cbn in Hl; try discriminate; cbn [obj_eqb]; [split; reflexivity|].
  rewrite andb_true_iff, list_eqb_iff, IH by lia. split; [intros [-> ->]; reflexivity|intros H; inversion H; auto].
Qed.
End DCC.

(* VarLenArray concatenation: every row is right-aligned in the widest width and padded with zeros on the left *)
Theorem varlen_rows (blocks : list (list (list Z))) :
  let W := fold_left Z.max (map (fun b => match b with [] => 0 | r :: _ => zlen r end) blocks) 0 in
  varlen_concat blocks = concat (map (map (fun r => repeat 0 (Z.to_nat (W - zlen r)) ++ r)) blocks).
Proof. cbn zeta. unfold varlen_concat. now rewrite flat_map_concat_map. Qed.
