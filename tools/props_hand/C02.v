(* C02 — indexing reads exactly the addressed cells, or refuses.  Property theorem only; proof in Proofs/GetItem.v. *)
From NPS Require Import ListAux PySlice NumpySem View Index RowsSpec Denote GetItem.

(* index_ok: a ragged boolean mask has the array's row lengths (what the library requires of a mask operand) *)
Theorem C02_getitem : forall (A : Type) (dflt : A) (a : ra A) (idx : index),
  WF A a -> index_ok A (denote A dflt a) idx -> model_obs A a idx = spec_getitem (denote A dflt a) idx.
Proof. exact getitem_correct. Qed.
Print Assumptions C02_getitem.
