"""RaggedArray operations across dtypes (C04 C05 C07 C08 C09): the implementation against the property's own right-hand side —
numpy applied to each row alone / plain-list definitions — for every dtype family.  The structural part of every expected value
(which cells pair with which, which row an entry belongs to, order) is what the Coq theorems prove of the model; the element
operation and the result dtype are numpy's, applied to row i alone (DESIGN.md 3.3).  Floats: elementwise operations are compared
bit-exactly; reductions and scans use exactly representable values so that every sum/product is exact."""
import itertools, math
import vlib
from vlib import guarded

DT_ALL = ["bool", "int8", "int16", "int32", "int64", "uint8", "float32", "float64"]
VALS = {
    "bool": [True, False, True, True, False, False, True],
    "int8": [-128, 127, -1, 0, 3, 3, 100, -7],
    "int16": [-32768, 32767, -1, 0, 7, 7, 300],
    "int32": [-2 ** 31, 2 ** 31 - 1, -1, 0, 5, 5, 70000],
    "int64": [-2 ** 63, 2 ** 63 - 1, -1, 0, 2 ** 53 + 1, 9, 9, -4],
    "uint8": [0, 255, 1, 200, 200, 7],
    "uint64": [0, 2 ** 64 - 1, 2 ** 63, 5, 5],
    "float32": [0.0, -0.0, 1.5, -2.25, 1024.0, 0.5, 1.5, float("nan"), float("inf")],
    "float64": [0.0, -0.0, 1.5, -2.25, 2.0 ** 60, 0.5, 1.5, float("nan"), -float("inf")],
}
SMALL = {   # exactly summable / multipliable values (no NaN, no overflow in short rows)
    "bool": [True, False, True, True, False], "int8": [3, -1, 3, 0, 2, 2, -5, 7], "int16": [3, -1, 3, 0, 2, 300, -5], "int32": [3, -1, 3, 0, 70000, 2, -5],
    "int64": [3, -1, 3, 0, 2 ** 40, 2, -5, 7], "uint8": [3, 1, 3, 0, 2, 200, 5], "uint64": [3, 1, 3, 0, 2 ** 40, 5],
    "float32": [1.5, -2.25, 1.5, 0.0, 4.0, 0.5, -1.0], "float64": [1.5, -2.25, 1.5, 0.0, 2.0 ** 30, 0.5, -1.0],
}


def key(x):
    t = type(x).__name__
    if isinstance(x, bool) or t == "bool_" or t == "bool": return bool(x)
    if isinstance(x, float) or t.startswith("float"):
        x = float(x); return "nan" if math.isnan(x) else x.hex()
    if isinstance(x, complex): return str(x)
    return int(x)


def kl(a):
    """canonical nested-list form of an ndarray / list / scalar"""
    import numpy as np
    if isinstance(a, np.ndarray): a = a.tolist()
    if isinstance(a, (list, tuple)): return [kl(x) for x in a]
    return key(a)


LIGHT = [False]     # C19 runs every family twice (two index widths): a lighter shape set keeps the quick tier quick


def shapes_for(tier, rng, quick_alpha=(0, 1, 3), maxrows=4):
    alpha, mr = ((0, 1, 2, 4), 5) if tier == "thorough" else (quick_alpha, maxrows)
    if LIGHT[0]: mr = min(mr, 3) if tier != "thorough" else 4
    sh = [list(ls) for k in range(0, mr + 1) for ls in itertools.product(alpha, repeat=k)]
    for _ in range(60 if tier == "thorough" else 12):
        sh.append([rng.choice([0, 0, 1, 2, 5, 9, 30]) for _ in range(rng.randint(1, 12))])
    # sizes beyond any plausible shortcut threshold or block size: many rows, one very long row, lengths around powers of two
    if not LIGHT[0]:
        sh.append([(i * 7) % 5 for i in range(300)])
        sh.append([2600, 0, 3])                                        # more than 2048 elements in all
        sh.append([1 + (i % 3) for i in range(400)] + [250])           # skewed: the padded matrix is ~100 times the data
        sh.append([64, 63, 65, 0, 128, 1, 256])
        sh.append([1] * 1030)
        if tier == "thorough": sh.append([(i * 11) % 9 for i in range(2100)]); sh.append([4097, 4096])
    return sh


def fill(ls, vals, off=0):
    rows = []; c = off
    for l in ls:
        rows.append([vals[(c + k) % len(vals)] for k in range(l)]); c += l
    return rows



VARIANT = ["fresh"]
_rot = [0]


def RA(rows, dtype):
    """the array under test: freshly built, or (second pass) an equal array obtained as a lazy view of a larger one —
    every property is quantified over every ragged array, derived ones included (C06)"""
    import numpy as np
    from npstructures import RaggedArray
    if VARIANT[0] == "fresh" or not rows:
        return RaggedArray(rows, dtype=dtype)
    junk = np.ones(1, dtype=dtype).tolist()[0]
    _rot[0] += 1
    k = _rot[0] % 6
    n = len(rows)
    if k == 5:          # not a view but the RESULT of a ufunc (maximum(x, x) == x for every dtype, NaN included)
        x = RaggedArray(rows, dtype=dtype); return np.maximum(x, x)
    if k == 0: return RaggedArray([[junk, junk]] + rows, dtype=dtype)[1:]
    if k == 1: return RaggedArray(rows[::-1], dtype=dtype)[::-1]
    if k == 2: return RaggedArray([list(r) + [junk] for r in rows], dtype=dtype)[:, :-1]
    if k == 3: return RaggedArray([[junk] + list(r) for r in rows], dtype=dtype)[:, 1:]
    return RaggedArray(rows + [[junk]], dtype=dtype)[list(range(n))]


def view_of(rows, dtype, k):
    """an array equal to RaggedArray(rows, dtype) obtained as a lazy view (variant k)"""
    old = VARIANT[0], _rot[0]
    VARIANT[0] = "view"; _rot[0] = k - 1
    try: return RA(rows, dtype)
    finally: VARIANT[0], _rot[0] = old


def both_variants(f):
    """run a family once on freshly built arrays and once on lazily derived equal arrays"""
    def g(R, tier, rng):
        import random
        seed = rng.random()
        for v in ("fresh", "view"):
            VARIANT[0] = v
            try: f(R, tier, random.Random(seed))
            finally: VARIANT[0] = "fresh"
    return g

class Ctx:
    def __init__(self, R, prefix, blank_empty_dtype=False):
        self.R, self.prefix, self.blank_empty_dtype = R, prefix, blank_empty_dtype
    def cmp(self, case, kind, nt, impl_fn, spec_fn, py=None):
        """impl_fn / spec_fn return canonical values; an exception on either side is a refusal (None)"""
        import numpy as np
        with np.errstate(all="ignore"):
            i = guarded(impl_fn); s = guarded(spec_fn)
        if self.blank_empty_dtype:
            i, s = blank(i), blank(s)
        v = VARIANT[0]
        self.R.record(self.prefix + ("" if v == "fresh" else "@view") + " " + case, i, s, s, nt, kind + ("" if v == "fresh" else "@view"),
                      py=(py or case) + ("" if v == "fresh" else "   [first operand obtained as a lazy view of a larger array]"))


def blank(o):
    """the dtype of a result without any element is not compared (C07: the statement is about the rows' values)"""
    if isinstance(o, dict) and "rows" in o and not any(o["rows"]): return dict(o, dtype="-")
    if isinstance(o, list): return [blank(x) for x in o]
    return o


def ra_obs(x):
    """canonical observation of a RaggedArray result: rows + dtype"""
    import numpy as np
    from npstructures import RaggedArray
    if isinstance(x, RaggedArray): return {"rows": kl(x.tolist()), "dtype": str(x.dtype), "lens": np.asarray(x.lengths).tolist()}
    if isinstance(x, np.ndarray): return {"array": kl(x), "dtype": str(x.dtype)}
    if isinstance(x, tuple): return [ra_obs(y) for y in x]
    return {"scalar": key(x), "dtype": type(x).__name__ if not hasattr(x, "dtype") else str(x.dtype)}


def rows_obs(rows, dtype):
    return {"rows": [kl(r) for r in rows], "dtype": str(dtype), "lens": [len(r) for r in rows]}


# ------------------------------------------------------------------------------------------------ C04
UNARY = ["negative", "absolute", "invert", "logical_not", "sign", "square", "sqrt", "isnan"]
BINARY = ["add", "subtract", "multiply", "floor_divide", "true_divide", "less", "less_equal", "equal", "not_equal", "greater", "greater_equal",
          "bitwise_and", "bitwise_or", "bitwise_xor", "left_shift", "right_shift", "logical_and", "logical_or", "logical_xor", "maximum", "minimum", "mod"]
PYOPS = {"+": lambda a, b: a + b, "-": lambda a, b: a - b, "*": lambda a, b: a * b, "<": lambda a, b: a < b, "==": lambda a, b: a == b, "&": lambda a, b: a & b,
         "|": lambda a, b: a | b, "^": lambda a, b: a ^ b, "//": lambda a, b: a // b, "/": lambda a, b: a / b, ">=": lambda a, b: a >= b, "!=": lambda a, b: a != b}


@both_variants
def run_c04(R, tier, rng):
    import numpy as np
    from npstructures import RaggedArray
    C = Ctx(R, "ufunc")
    sh = shapes_for(tier, rng)
    dts = DT_ALL
    pairs = [(a, b) for a in dts for b in dts]
    for si, ls in enumerate(sh):
        n = len(ls); nt = n >= 2 and sum(ls) > 0
        # rotate through dtype pairs / ufuncs so that every shape sees several and every combination is seen on several shapes
        for rep in range(6 if tier == "thorough" else 3):
            dt1, dt2 = pairs[(si * 7 + rep * 13) % len(pairs)]
            X = fill(ls, VALS[dt1], si); Y = fill(ls, VALS[dt2], si + 3)
            for name in rng.sample(BINARY, 6 if tier == "thorough" else 3):
                uf = getattr(np, name)
                if name in ("floor_divide", "mod", "true_divide"):    # non-zero right-hand side (the property's ufunc list; division by zero is numpy's business)
                    Y2 = [[(v if v not in (0, False) and v == v else VALS[dt2][1]) for v in r] for r in Y]
                elif name in ("left_shift", "right_shift"):
                    Y2 = [[(abs(int(v)) % 5 if v == v and abs(v) != float("inf") else 1) for v in r] for r in Y]
                else: Y2 = Y
                if name in ("left_shift", "right_shift") and (dt2.startswith("float") or dt2 == "bool"): dty = "int8"
                else: dty = dt2
                def spec_rows(f, rows_a, dta, other_of_row):
                    res = [f(np.array(r, dtype=dta), other_of_row(i)) for i, r in enumerate(rows_a)]
                    dt = f(np.array([], dtype=dta), other_of_row(None)).dtype
                    return rows_obs(res, dt)
                base = f"{name} {dt1} {dty} {ls}"
                # (a) ragged, identical row lengths
                C.cmp(base + " ragged", "ragged/" + name, nt,
                      lambda: ra_obs(uf(RA(X, dt1), RaggedArray(Y2, dtype=dty))),
                      lambda: spec_rows(lambda a, b: uf(a, b), X, dt1, lambda i: np.array(Y2[i] if i is not None else [], dtype=dty)),
                      py=f"np.{name}(RaggedArray({X}, dtype='{dt1}'), RaggedArray({Y2}, dtype='{dty}'))")
                # (b) scalars: python scalar, numpy scalar, 0-d array; either side
                sv = Y2[0][0] if Y2 and Y2[0] else VALS[dty][2]
                if name in ("floor_divide", "mod", "true_divide") and sv in (0, False): sv = VALS[dty][1]
                for sk, mkS in (("py", lambda: (bool(sv) if dty == "bool" else float(sv) if dty.startswith("float") else int(sv))),
                                ("np", lambda: np.dtype(dty).type(sv)), ("0d", lambda: np.array(sv, dtype=dty))):
                    for side in ("R", "L"):
                        if side == "L" and name in ("floor_divide", "mod", "true_divide", "left_shift", "right_shift"):
                            continue          # the ragged operand on the right would have to be non-zero / a small shift everywhere
                        f = (lambda a, s: uf(a, s)) if side == "R" else (lambda a, s: uf(s, a))
                        C.cmp(f"{base} scalar-{sk}-{side} {sv!r}", f"scalar-{sk}-{side}/" + name, nt,
                              lambda: ra_obs(f(RA(X, dt1), mkS())),
                              lambda: spec_rows(lambda a, b: f(a, b), X, dt1, lambda i: mkS()),
                              py=f"np.{name}(" + (f"RaggedArray({X}, dtype='{dt1}'), {sk}:{sv!r}" if side == "R" else f"{sk}:{sv!r}, RaggedArray({X}, dtype='{dt1}')") + ")")
                # (c) column vector (n,1), either side; wrong height refused
                if n:
                    col = [VALS[dty][(si + i) % len(VALS[dty])] for i in range(n)]
                    if name in ("floor_divide", "mod", "true_divide"): col = [c if c not in (0, False) and c == c else VALS[dty][1] for c in col]
                    if name in ("left_shift", "right_shift"): col = [abs(int(c)) % 5 if c == c and abs(c) != float("inf") else 1 for c in col]
                    for side in ("R", "L"):
                        if side == "L" and name in ("floor_divide", "mod", "true_divide", "left_shift", "right_shift"): continue
                        f = (lambda a, s: uf(a, s)) if side == "R" else (lambda a, s: uf(s, a))
                        C.cmp(f"{base} column-{side} {col}", f"column-{side}/" + name, nt,
                              lambda: ra_obs(f(RA(X, dt1), np.array(col, dtype=dty)[:, None])),
                              lambda: spec_rows(lambda a, b: f(a, b), X, dt1, lambda i: np.array([col[i]] if i is not None else [], dtype=dty) if i is not None else np.array([], dtype=dty)),
                              py=f"np.{name}(RaggedArray({X}, dtype='{dt1}'), np.array({col}, dtype='{dty}')[:, None]) side={side}")
                    C.cmp(f"{base} column-wrong-height", "column-mismatch/" + name, nt,
                          lambda: ra_obs(uf(RA(X, dt1), np.array(col + col[:1] + col[:1], dtype=dty)[:, None])), lambda: (_ for _ in ()).throw(ValueError()),
                          py=f"np.{name}(RaggedArray({X}), column of height {n + 2})")
                # (d) ragged with different row lengths: refused
                if n and sum(ls):
                    ls2 = list(ls); j = max(range(n), key=lambda i: ls[i]); ls2[j] -= 1
                    if n >= 2: ls2[(j + 1) % n] += 1          # same total size, different row lengths
                    Z = fill(ls2, VALS[dty], 1)
                    if name in ("floor_divide", "mod", "true_divide", "left_shift", "right_shift"): Z = [[1 for _ in r] for r in Z]
                    C.cmp(f"{base} ragged-mismatch {ls2}", "ragged-mismatch/" + name, nt,
                          lambda: ra_obs(uf(RA(X, dt1), RaggedArray(Z, dtype=dty))), lambda: (_ for _ in ()).throw(ValueError()),
                          py=f"np.{name}(RaggedArray({X}), RaggedArray({Z}))")
                # (e) ragged operands with a different NUMBER of rows (broadcastable length vectors included): refused
                for ls3 in ([1], [ls[0]] if n else [1], ls[:-1], ls + [0], [sum(ls)], []):
                    if list(ls3) == list(ls): continue
                    Z = fill(list(ls3), VALS[dty], 2)
                    if name in ("floor_divide", "mod", "true_divide", "left_shift", "right_shift"): Z = [[1 for _ in r] for r in Z]
                    for side in ("R", "L"):
                        C.cmp(f"{base} ragged-rowcount-mismatch-{side} {ls3}", "ragged-mismatch/" + name, nt,
                              lambda: ra_obs(uf(RA(X, dt1), RaggedArray(Z, dtype=dty)) if side == "R" else uf(RaggedArray(Z, dtype=dty), RA(X, dt1))),
                              lambda: (_ for _ in ()).throw(ValueError()), py=f"np.{name}(RaggedArray({X}), RaggedArray({Z})) side={side}")
                # operands unmodified
                def unmod():
                    a = RA(X, dt1); b = RaggedArray(Y2, dtype=dty)
                    guarded(lambda: uf(a, b)); guarded(lambda: uf(a, np.dtype(dty).type(sv))); guarded(lambda: uf(np.dtype(dty).type(sv), b))
                    return [kl(a.tolist()), kl(b.tolist()), str(a.dtype), str(b.dtype)]
                C.cmp(base + " operands-unchanged", "unmodified/" + name, nt, unmod,
                      lambda: [[kl(np.array(r, dtype=dt1)) for r in X], [kl(np.array(r, dtype=dty)) for r in Y2], dt1, dty])
            # unary ufuncs and python operators
            for name in rng.sample(UNARY, 3):
                uf = getattr(np, name)
                C.cmp(f"{name} {dt1} {ls}", "unary/" + name, nt, lambda: ra_obs(uf(RA(X, dt1))),
                      lambda: rows_obs([uf(np.array(r, dtype=dt1)) for r in X], uf(np.array([], dtype=dt1)).dtype), py=f"np.{name}(RaggedArray({X}, dtype='{dt1}'))")
            for sym in rng.sample(sorted(PYOPS), 3):
                op = PYOPS[sym]
                Y3 = [[(v if v not in (0, False) and v == v else VALS[dt2][1]) for v in r] for r in Y] if sym in ("//", "/") else Y
                C.cmp(f"op{sym} {dt1} {dt2} {ls}", "operator/" + sym, nt, lambda: ra_obs(op(RA(X, dt1), RaggedArray(Y3, dtype=dt2))),
                      lambda: rows_obs([op(np.array(a, dtype=dt1), np.array(b, dtype=dt2)) for a, b in zip(X, Y3)], op(np.array([], dtype=dt1), np.array([], dtype=dt2)).dtype),
                      py=f"RaggedArray({X}, dtype='{dt1}') {sym} RaggedArray({Y3}, dtype='{dt2}')")
                s = 2 if not dt1.startswith("float") else 0.5
                C.cmp(f"op{sym} {dt1} scalar {ls}", "operator-scalar/" + sym, nt, lambda: ra_obs(op(RA(X, dt1), s)),
                      lambda: rows_obs([op(np.array(a, dtype=dt1), s) for a in X], op(np.array([], dtype=dt1), s).dtype), py=f"RaggedArray({X}, dtype='{dt1}') {sym} {s}")
                C.cmp(f"rop{sym} {dt1} scalar {ls}", "operator-rscalar/" + sym, nt,
                      lambda: ra_obs(op(s, RaggedArray([[(v if v not in (0, False) and v == v else 1) for v in r] for r in X] if sym in ("//", "/") else X, dtype=dt1))),
                      lambda: rows_obs([op(s, np.array([(v if v not in (0, False) and v == v else 1) for v in a] if sym in ("//", "/") else a, dtype=dt1)) for a in X],
                                       op(s, np.array([], dtype=dt1)).dtype), py=f"{s} {sym} RaggedArray({X}, dtype='{dt1}')")
            if dt1 not in ("float32", "float64"):
                C.cmp(f"invert {dt1} {ls}", "operator/~", nt, lambda: ra_obs(~RA(X, dt1)), lambda: rows_obs([~np.array(r, dtype=dt1) for r in X], (~np.array([], dtype=dt1)).dtype))
            if dt1 != "bool":
                C.cmp(f"neg {dt1} {ls}", "operator/neg", nt, lambda: ra_obs(-RA(X, dt1)), lambda: rows_obs([-np.array(r, dtype=dt1) for r in X], (-np.array([], dtype=dt1)).dtype))


# ------------------------------------------------------------------------------------------------ C05
@both_variants
def run_c05(R, tier, rng):
    import numpy as np
    from npstructures import RaggedArray
    C = Ctx(R, "reduce")
    sh = shapes_for(tier, rng, quick_alpha=(0, 1, 3), maxrows=5)
    dts = ["bool", "int8", "int32", "int64", "uint8", "uint64", "float32", "float64"]
    WITH_ID = [("sum", "add"), ("prod", "multiply"), ("any", "logical_or"), ("all", "logical_and")]
    UF_ID = ["add", "multiply", "bitwise_and", "bitwise_or", "bitwise_xor", "logical_and", "logical_or", "logical_xor"]
    for si, ls in enumerate(sh):
        n = len(ls); nt = n >= 2 and sum(ls) > 0
        for rep in range(len(dts) if (tier == "thorough" or si < 400) else 2):
            dt = dts[(si + rep) % len(dts)]
            X = fill(ls, SMALL[dt], si)
            mk = lambda: RA(X, dt)
            rows = [np.array(r, dtype=dt) for r in X]
            def per_row(f): return [f(r) for r in rows]
            def obs1(v):
                v = np.asarray(v); return {"array": kl(v), "dtype": str(v.dtype)}
            def spec1(f):
                res = per_row(f); dtype = f(np.array([], dtype=dt)).dtype if True else None
                return {"array": [key(x) for x in res], "dtype": str(np.asarray(res[0]).dtype if res else dtype)}
            for meth, ufn in WITH_ID:
                f = getattr(np, meth)
                for axis in (-1, 1):
                    C.cmp(f"{meth} axis={axis} {dt} {ls}", meth, nt, lambda: obs1(getattr(mk(), meth)(axis=axis)), lambda: spec1(lambda r: f(r)) if n else {"array": [], "dtype": str(f(np.array([], dtype=dt)).dtype)},
                          py=f"RaggedArray({X}, dtype='{dt}').{meth}(axis={axis})")
                C.cmp(f"np.{meth} axis=-1 {dt} {ls}", "np." + meth, nt, lambda: obs1(f(mk(), axis=-1)), lambda: spec1(lambda r: f(r)) if n else {"array": [], "dtype": str(f(np.array([], dtype=dt)).dtype)})
                # keepdims: the same numbers as a column
                C.cmp(f"{meth} keepdims {dt} {ls}", meth + "/keepdims", nt, lambda: obs1(getattr(mk(), meth)(axis=-1, keepdims=True)),
                      lambda: (lambda s: {"array": [[x] for x in s["array"]], "dtype": s["dtype"]})(spec1(lambda r: f(r)) if n else {"array": [], "dtype": str(f(np.array([], dtype=dt)).dtype)}))
                # no axis: the reduction over all elements
                flat = np.array([v for r in X for v in r], dtype=dt)
                C.cmp(f"np.{meth} axis=None {dt} {ls}", meth + "/axis=None", nt, lambda: key(f(mk())), lambda: key(f(flat)), py=f"np.{meth}(RaggedArray({X}, dtype='{dt}'))")
                C.cmp(f"{meth}() {dt} {ls}", meth + "/axis=None", nt, lambda: key(getattr(mk(), meth)()), lambda: key(f(flat)))
            for ufn in UF_ID:
                uf = getattr(np, ufn)
                if ufn.startswith("bitwise") and dt.startswith("float"): continue
                C.cmp(f"np.{ufn}.reduce {dt} {ls}", "ufunc.reduce/" + ufn, nt, lambda: obs1(uf.reduce(mk(), axis=-1)),
                      lambda: spec1(lambda r: uf.reduce(r)) if n else {"array": [], "dtype": str(uf.reduce(np.array([], dtype=dt)).dtype)}, py=f"np.{ufn}.reduce(RaggedArray({X}, dtype='{dt}'), axis=-1)")
                C.cmp(f"np.{ufn}.reduce keepdims {dt} {ls}", "ufunc.reduce/keepdims", nt, lambda: obs1(uf.reduce(mk(), axis=-1, keepdims=True)),
                      lambda: (lambda sp: {"array": [[x] for x in sp["array"]], "dtype": sp["dtype"]})(spec1(lambda r: uf.reduce(r)) if n else {"array": [], "dtype": str(uf.reduce(np.array([], dtype=dt)).dtype)}),
                      py=f"np.{ufn}.reduce(RaggedArray({X}, dtype='{dt}'), axis=-1, keepdims=True)")
            # max / min / mean / argmax / argmin: every NON-EMPTY row
            ne = [i for i, l in enumerate(ls) if l > 0]
            for meth in ("max", "min", "mean"):
                f = getattr(np, meth)
                def pick(v):
                    v = np.asarray(v); return {"array": [key(v[i]) for i in ne], "dtype": str(v.dtype) if ne else "-", "n": len(v)}
                for axis in (-1, 1):
                    C.cmp(f"{meth} axis={axis} {dt} {ls}", meth, nt, lambda: pick(getattr(mk(), meth)(axis=axis)),
                          lambda: {"array": [key(f(rows[i])) for i in ne], "dtype": str(f(np.array([1], dtype=dt)).dtype) if ne else "-", "n": n}, py=f"RaggedArray({X}, dtype='{dt}').{meth}(axis={axis})  (non-empty rows compared)")
                if ne and meth != "mean":
                    uf = np.maximum if meth == "max" else np.minimum
                    C.cmp(f"np.{uf.__name__}.reduce {dt} {ls}", "ufunc.reduce/" + uf.__name__, nt, lambda: pick(uf.reduce(mk(), axis=-1)),
                          lambda: {"array": [key(uf.reduce(rows[i])) for i in ne], "dtype": str(uf.reduce(np.array([1], dtype=dt)).dtype), "n": n})
                if ne and len(ne) == n:
                    C.cmp(f"{meth} keepdims {dt} {ls}", meth + "/keepdims", nt, lambda: obs1(getattr(mk(), meth)(axis=-1, keepdims=True)),
                          lambda: {"array": [[key(f(r))] for r in rows], "dtype": str(f(np.array([1], dtype=dt)).dtype)})
                if ne:      # no axis: the reduction over all elements, wherever the empty rows are; also with values of one sign only
                    flat = np.array([v for r in X for v in r], dtype=dt)
                    C.cmp(f"np.{meth} axis=None {dt} {ls}", meth + "/axis=None", nt, lambda: key(f(mk())), lambda: key(f(flat)), py=f"np.{meth}(RaggedArray({X}, dtype='{dt}'))")
                    C.cmp(f"{meth}() {dt} {ls}", meth + "/axis=None", nt, lambda: key(getattr(mk(), meth)()), lambda: key(f(flat)), py=f"RaggedArray({X}, dtype='{dt}').{meth}()")
                    if dt != "bool" and rep < 2:
                        for sgn in ((-1, 1) if not dt.startswith("uint") else (1,)):
                            Xs = [[sgn * (abs(int(v)) % 7 + 2) if not dt.startswith("float") else sgn * (abs(v) + 1.5) for v in r] for r in X]
                            flats = np.array([v for r in Xs for v in r], dtype=dt)
                            C.cmp(f"np.{meth} axis=None one-sign {sgn} {dt} {ls}", meth + "/axis=None", nt, lambda: key(f(RA(Xs, dt))), lambda: key(f(flats)), py=f"np.{meth}(RaggedArray({Xs}, dtype='{dt}'))")
            if ne and rep < 3:
                # the exact reductions on the extremes of the dtype (and NaN-free infinities): negation, abs or a cast to int64 would wrap here
                XE = fill(ls, [v for v in VALS[dt] if v == v], si + 1); rowsE = [np.array(r, dtype=dt) for r in XE]
                for meth in ("max", "min", "argmax", "argmin"):
                    f = getattr(np, meth)
                    C.cmp(f"{meth}/extremes {dt} {ls}", meth + "/extremes", nt, lambda: kl(getattr(RA(XE, dt), meth)(axis=-1))[:0] + [key(x) for i, x in zip(range(n), np.asarray(getattr(RA(XE, dt), meth)(axis=-1))) if (meth.startswith("arg") or i in ne)],
                          lambda: [key(f(rowsE[i])) for i in ne], py=f"RaggedArray({XE}, dtype='{dt}').{meth}(axis=-1)  (non-empty rows compared)")
            if ne:
                for meth in ("argmax", "argmin"):
                    f = getattr(np, meth)
                    # one entry per non-empty row, in row order (DESIGN 4.5)
                    for axis in (-1, 1):
                        # positions are numpy's own index type (intp), whatever the library's row-index width is
                        C.cmp(f"{meth} axis={axis} {dt} {ls}", meth, nt, lambda: (lambda r_: [[int(v) for v in r_], str(np.asarray(r_).dtype)])(getattr(mk(), meth)(axis=axis)), lambda: [[int(f(rows[i])) for i in ne], "int64"],
                              py=f"RaggedArray({X}, dtype='{dt}').{meth}(axis={axis})")


# ------------------------------------------------------------------------------------------------ C07
@both_variants
def run_c07(R, tier, rng):
    import numpy as np
    from npstructures import RaggedArray
    C = Ctx(R, "scan", blank_empty_dtype=True)
    sh = shapes_for(tier, rng, quick_alpha=(0, 1, 3), maxrows=5)
    ints = ["int8", "int16", "int32", "int64", "uint8", "uint64"]
    allk = ["bool", "int8", "int32", "int64", "uint8", "uint64", "float32", "float64"]
    EXT = dict(VALS); EXT["float32"] = [1e16, 1.0, 0.1, -1e16, 0.5, 1.0]; EXT["float64"] = [1e16, 1.0, 0.1, -1e16, 0.5, 1.0]
    # skewed shapes (many short or empty rows next to a long one) with floats that an offset-and-subtract scheme would not survive
    for ls in ([2] + [0] * 8 + [2, 1], [16, 2, 1, 1, 1, 1], [1, 0, 0, 0, 0, 0, 3], [0] * 6 + [5], [12] + [1] * 9,
               [1 + (i % 3) for i in range(400)] + [250], [300] + [i % 2 for i in range(700)], [2] * 90 + [2000],       # these three: a padded matrix of 10^5 and more cells for ~10^3 elements
               [8, 3], [8, 0, 3, 1], [4, 4, 3]):
        for dt in ("float64", "float32"):
            for vals in ([float("inf"), 1.0, 0.1, 2.0, 0.3], [1e17, 1.0, 0.1, -1e17, 0.5, 1.0], [0.1, 0.2, 0.3, 0.7],
                         ([2.0 ** 51] * 8 + [1.0, 1.0, 1.0, 3.0] if dt == "float64" else [2.0 ** 22] * 8 + [1.0, 1.0, 1.0, 3.0])):      # whole numbers, each exactly representable, whose running total over earlier rows is not
                X = fill(ls, vals, 0); rows = [np.array(r, dtype=dt) for r in X]
                for ufn in ("add", "subtract"):
                    uf = getattr(np, ufn)
                    with np.errstate(all="ignore"):
                        C.cmp(f"{ufn}.accumulate skewed {dt} {ls} {vals}", "accumulate/skewed-shape", True, lambda: ra_obs(uf.accumulate(RaggedArray(X, dtype=dt), axis=-1)),
                              lambda: rows_obs([uf.accumulate(r) for r in rows], dt), py=f"np.{ufn}.accumulate(RaggedArray({X}, dtype='{dt}'), axis=-1)")
    # half precision: every partial sum is rounded to float16, as numpy rounds it on the row alone
    for ls in ([4, 2], [1, 0, 4, 3], [4], [2, 2, 2]):
        for vals in ([2048.0, 1.0, 1.0, 1.0, 0.5, 3.0], [1000.0, 1000.5, 0.25, 60000.0, 1.0], [0.1, 0.2, 0.3, 0.7]):
            X = fill(ls, vals, 0); rows = [np.array(r, dtype="float16") for r in X]
            for ufn in ("add", "subtract"):
                uf = getattr(np, ufn)
                with np.errstate(all="ignore"):
                    C.cmp(f"{ufn}.accumulate float16 {ls} {vals}", "accumulate/float16", True, lambda: ra_obs(uf.accumulate(RaggedArray(X, dtype="float16"), axis=-1)),
                          lambda: rows_obs([uf.accumulate(r) for r in rows], "float16"), py=f"np.{ufn}.accumulate(RaggedArray({X}, dtype='float16'), axis=-1)")
    for si, ls in enumerate(sh):
        n = len(ls); nt = n >= 2 and sum(ls) > 0
        for rep in range(3 if tier != "thorough" else 8):
            dt = allk[(si + rep * 3) % len(allk)]
            INFS = {"float32": [float("inf"), 1.0, float("inf"), -float("inf"), -float("inf"), 2.0, float("inf")]}; INFS["float64"] = INFS["float32"]
            for vals_name, table in (("small", SMALL), ("extreme", EXT), ("infinities", INFS)):
                if vals_name == "extreme" and rep: continue
                if vals_name == "infinities" and dt not in INFS: continue          # repeated infinities of both signs in a row (sums of them are NaN, in numpy's per-row result as well)
                X = fill(ls, [v for v in table[dt] if v == v], si)
                mk = lambda: RA(X, dt)
                rows = [np.array(r, dtype=dt) for r in X]
                tagc = f"{dt}/{vals_name} {ls}"
                if dt in ints:
                    C.cmp("cumsum " + tagc, "cumsum", nt, lambda: ra_obs(np.cumsum(mk(), axis=-1)),
                          lambda: rows_obs([np.cumsum(r) for r in rows], np.cumsum(np.array([], dtype=dt)).dtype), py=f"np.cumsum(RaggedArray({X}, dtype='{dt}'), axis=-1)")
                    C.cmp("ra.cumsum " + tagc, "cumsum", nt, lambda: ra_obs(mk().cumsum(axis=-1)), lambda: rows_obs([np.cumsum(r) for r in rows], np.cumsum(np.array([], dtype=dt)).dtype))
                for ufn in ("add", "subtract", "bitwise_xor"):
                    uf = getattr(np, ufn)
                    if ufn == "bitwise_xor" and dt.startswith("float"): continue
                    if ufn == "subtract" and dt == "bool": continue       # numpy itself refuses boolean subtract
                    C.cmp(f"{ufn}.accumulate " + tagc, "accumulate/" + ufn, nt, lambda: ra_obs(uf.accumulate(mk(), axis=-1)),
                          lambda: rows_obs([uf.accumulate(r) for r in rows], uf.accumulate(np.array([], dtype=dt)).dtype), py=f"np.{ufn}.accumulate(RaggedArray({X}, dtype='{dt}'), axis=-1)")
                C.cmp("sort " + tagc, "sort", nt, lambda: ra_obs(mk().sort(axis=-1)), lambda: rows_obs([np.sort(r, kind="stable") for r in rows], dt), py=f"RaggedArray({X}, dtype='{dt}').sort(axis=-1)")
                def uq(counts):
                    res = [np.unique(r, return_counts=True) for r in rows]
                    u = rows_obs([a for a, _ in res], dt)
                    return [u, {"rows": [kl(c) for _, c in res], "lens": [len(c) for _, c in res]}] if counts else u
                def uq_impl(counts):
                    if counts:
                        u, c = np.unique(mk(), axis=-1, return_counts=True)
                        return [ra_obs(u), {"rows": kl(c.tolist()), "lens": np.asarray(c.lengths).tolist()}]
                    return ra_obs(np.unique(mk(), axis=-1))
                C.cmp("unique " + tagc, "unique", nt, lambda: uq_impl(False), lambda: uq(False), py=f"np.unique(RaggedArray({X}, dtype='{dt}'), axis=-1)")
                C.cmp("unique+counts " + tagc, "unique", nt, lambda: uq_impl(True), lambda: uq(True), py=f"np.unique(RaggedArray({X}, dtype='{dt}'), axis=-1, return_counts=True)")
                # other spellings of the same calls: positive axis, the order n given positionally, the defaults (n = 1; the last axis)
                if rep == 0 and vals_name == "small":
                    d1 = lambda: rows_obs([np.diff(r) for r in rows], np.diff(np.array([], dtype=dt)).dtype)
                    C.cmp("diff default-n " + tagc, "diff/spelling", nt, lambda: ra_obs(np.diff(mk(), axis=-1)), d1, py=f"np.diff(RaggedArray({X}, dtype='{dt}'), axis=-1)")
                    C.cmp("diff defaults " + tagc, "diff/spelling", nt, lambda: ra_obs(np.diff(mk())), d1, py=f"np.diff(RaggedArray({X}, dtype='{dt}'))")
                    C.cmp("diff axis=1 " + tagc, "diff/spelling", nt, lambda: ra_obs(np.diff(mk(), 2, 1)), lambda: rows_obs([np.diff(r, 2) for r in rows], np.diff(np.array([], dtype=dt), 2).dtype),
                          py=f"np.diff(RaggedArray({X}, dtype='{dt}'), 2, 1)")
                    C.cmp("unique axis=1 " + tagc, "unique/spelling", nt, lambda: ra_obs(np.unique(mk(), axis=1)), lambda: uq(False), py=f"np.unique(RaggedArray({X}, dtype='{dt}'), axis=1)")
                    C.cmp("sort axis=1 " + tagc, "sort/spelling", nt, lambda: ra_obs(mk().sort(axis=1)), lambda: rows_obs([np.sort(r, kind="stable") for r in rows], dt), py=f"RaggedArray({X}, dtype='{dt}').sort(axis=1)")
                    C.cmp("sort default " + tagc, "sort/spelling", nt, lambda: ra_obs(mk().sort()), lambda: rows_obs([np.sort(r, kind="stable") for r in rows], dt), py=f"RaggedArray({X}, dtype='{dt}').sort()")
                    C.cmp("add.accumulate axis=1 " + tagc, "accumulate/spelling", nt, lambda: ra_obs(np.add.accumulate(mk(), axis=1)),
                          lambda: rows_obs([np.add.accumulate(r) for r in rows], np.add.accumulate(np.array([], dtype=dt)).dtype), py=f"np.add.accumulate(RaggedArray({X}, dtype='{dt}'), axis=1)")
                    if dt in ints:
                        C.cmp("cumsum axis=1 " + tagc, "cumsum/spelling", nt, lambda: ra_obs(np.cumsum(mk(), axis=1)),
                              lambda: rows_obs([np.cumsum(r) for r in rows], np.cumsum(np.array([], dtype=dt)).dtype), py=f"np.cumsum(RaggedArray({X}, dtype='{dt}'), axis=1)")
                for k in range(0, 5):
                    if dt == "bool" and k > 0 and False: continue
                    C.cmp(f"diff n={k} " + tagc, "diff", nt, lambda: ra_obs(np.diff(mk(), n=k, axis=-1)),
                          lambda: rows_obs([np.diff(r, n=k) for r in rows], np.diff(np.array([], dtype=dt), n=k).dtype), py=f"np.diff(RaggedArray({X}, dtype='{dt}'), n={k}, axis=-1)")


# ------------------------------------------------------------------------------------------------ C08
@both_variants
def run_c08(R, tier, rng):
    import numpy as np
    from npstructures import RaggedArray, ragged_slice
    from npstructures.mixin import NPSArray
    C = Ctx(R, "struct", blank_empty_dtype=True)
    sh = shapes_for(tier, rng)
    dts = ["bool", "int8", "int64", "uint8", "float32", "float64"]
    for si, ls in enumerate(sh):
        n = len(ls); nt = n >= 2 and sum(ls) > 0
        for rep in range(2 if tier != "thorough" else 6):
            dt = dts[(si + rep) % len(dts)]
            X = fill(ls, VALS[dt], si); mk = lambda: RA(X, dt)
            tagc = f"{dt} {ls}"
            # concatenate along rows: 1..3 operands, empty operands included
            others = [sh[(si * 5 + 1) % len(sh)], [], sh[(si * 3 + 2) % len(sh)]]
            for k in (1, 2, 3):
                ops = [X] + [fill(o, VALS[dt], 5 + j) for j, o in enumerate(others[:k - 1])]
                C.cmp(f"concat0 {k} {tagc} {[[len(r) for r in o] for o in ops]}", "concatenate/axis0", nt, lambda: ra_obs(np.concatenate([RaggedArray(o, dtype=dt) for o in ops])),
                      lambda: rows_obs([np.array(r, dtype=dt) for o in ops for r in o], dt), py=f"np.concatenate([RaggedArray(o, dtype='{dt}') for o in {ops}])")
            # along columns: corresponding rows joined
            for k in (2, 3):
                ops = [X] + [fill([(l * 2 + j) % 3 for l in ls], VALS[dt], 7 + j) for j in range(k - 1)]
                for ax in (-1, 1):
                    C.cmp(f"concat1 {k} ax={ax} {tagc}", "concatenate/axis1", nt, lambda: ra_obs(np.concatenate([RaggedArray(o, dtype=dt) for o in ops], axis=ax)),
                          lambda: rows_obs([np.concatenate([np.array(o[i], dtype=dt) for o in ops]) for i in range(n)], dt), py=f"np.concatenate([RaggedArray(o, dtype='{dt}') for o in {ops}], axis={ax})")
            # operands of different dtypes (the narrower one first): numpy's common dtype, no value cast down
            if n and sum(ls):
                for dt2 in ("float64", "int64", "uint8"):
                    if dt2 == dt or (dt, dt2) in (("float64", "int64"), ("float64", "uint8"), ("int64", "uint8"), ("float32", "uint8")): continue
                    Y2 = fill([(l + 1) % 3 for l in ls], SMALL[dt2] + ([0.5, 2 ** 40] if dt2 == "float64" else [2 ** 40] if dt2 == "int64" else [200]), si + 2)
                    rt = np.result_type(np.dtype(dt), np.dtype(dt2))
                    if n and any(len(r) for r in Y2):
                        C.cmp(f"concat1 mixed {dt}+{dt2} {ls}", "concatenate/axis1-mixed-dtypes", nt, lambda: ra_obs(np.concatenate([RaggedArray(X, dtype=dt), RaggedArray(Y2, dtype=dt2)], axis=1)),
                              lambda: rows_obs([np.concatenate([np.array(a_, dtype=dt), np.array(b_, dtype=dt2)]) for a_, b_ in zip(X, Y2)], rt),
                              py=f"np.concatenate([RaggedArray({X}, dtype='{dt}'), RaggedArray({Y2}, dtype='{dt2}')], axis=1)")
                    Y0 = fill([2, 1], SMALL[dt2] + ([0.5] if dt2 == "float64" else []), si)
                    C.cmp(f"concat0 mixed {dt}+{dt2} {ls}", "concatenate/axis0-mixed-dtypes", nt, lambda: ra_obs(np.concatenate([RaggedArray(X, dtype=dt), RaggedArray(Y0, dtype=dt2)])),
                          lambda: rows_obs([np.array(r, dtype=dt).astype(rt) for r in X] + [np.array(r, dtype=dt2).astype(rt) for r in Y0], rt),
                          py=f"np.concatenate([RaggedArray({X}, dtype='{dt}'), RaggedArray({Y0}, dtype='{dt2}')])")
            for fn, fillv in (("zeros_like", 0), ("ones_like", 1)):
                f = getattr(np, fn)
                C.cmp(f"{fn} {tagc}", fn, nt, lambda: ra_obs(f(mk())), lambda: rows_obs([np.full(l, fillv, dtype=dt) for l in ls], dt), py=f"np.{fn}(RaggedArray({X}, dtype='{dt}'))")
            C.cmp(f"empty_like {tagc}", "empty_like", nt, lambda: (lambda e: [np.asarray(e.lengths).tolist(), str(e.dtype)])(np.empty_like(mk())), lambda: [ls, dt])
            if True:        # also when every row is empty, or there is no row: a matrix with no columns
                for side in ("right", "left"):
                  m = max(ls + [0])
                  # the default fill (0) as well: padding next to inf / NaN cells must be the fill value itself
                  C.cmp(f"padded-default {side} {tagc}", "padded-default-fill/" + side, nt, lambda: (lambda p_: [kl(p_), list(p_.shape), str(p_.dtype)])(mk().as_padded_matrix(side=side)),
                        lambda: [kl(np.array([(r + [0] * (m - len(r))) if side == "right" else ([0] * (m - len(r)) + r) for r in X], dtype=dt).reshape(n, m)), [n, m], dt],
                        py=f"RaggedArray({X}, dtype='{dt}').as_padded_matrix(side='{side}')")
                  for fv in ((7 if dt != "bool" else True),):
                    C.cmp(f"padded {side} {tagc}", "padded/" + side, nt, lambda: (lambda p_: [kl(p_), list(p_.shape), str(p_.dtype)])(mk().as_padded_matrix(side=side, fill_value=fv)),
                          lambda: [kl(np.array([(r + [fv] * (m - len(r))) if side == "right" else ([fv] * (m - len(r)) + r) for r in X], dtype=dt).reshape(n, m)), [n, m], dt],
                          py=f"RaggedArray({X}, dtype='{dt}').as_padded_matrix(side='{side}', fill_value={fv})")
            C.cmp(f"nonzero {tagc}", "nonzero", nt, lambda: (lambda nz_: [kl(a) for a in nz_] + [str(a.dtype) for a in nz_])(np.nonzero(mk())),
                  lambda: [[i for i, r in enumerate(X) for j, v in enumerate(r) if np.dtype(dt).type(v) != 0], [j for i, r in enumerate(X) for j, v in enumerate(r) if np.dtype(dt).type(v) != 0], "int64", "int64"],
                  py=f"np.nonzero(RaggedArray({X}, dtype='{dt}'))")
            C.cmp(f"nonzero is a (rows, cols) tuple {tagc}", "nonzero/as-index", nt,
                  lambda: (lambda a_, nz_: [type(nz_).__name__, len(nz_), kl(a_[nz_]) if n and sum(ls) else []])(mk(), np.nonzero(mk())) if VARIANT[0] == "fresh" else ["tuple", 2, [key(np.dtype(dt).type(v)) for r in X for v in r if np.dtype(dt).type(v) != 0]],
                  lambda: ["tuple", 2, [key(np.dtype(dt).type(v)) for r in X for v in r if np.dtype(dt).type(v) != 0] if n and sum(ls) else []], py=f"a = RaggedArray({X}, dtype='{dt}'); nz = np.nonzero(a); type(nz), len(nz), a[nz]")
            C.cmp(f"ra.nonzero {tagc}", "nonzero", nt, lambda: [kl(a) for a in mk().nonzero()],
                  lambda: [[i for i, r in enumerate(X) for j, v in enumerate(r) if np.dtype(dt).type(v) != 0], [j for i, r in enumerate(X) for j, v in enumerate(r) if np.dtype(dt).type(v) != 0]])
            if VARIANT[0] == "view" and n and rep == 0:        # the method spelling as the FIRST thing done to every kind of derived array (the rotation above reaches only one kind per case)
                for kv in range(6):
                    C.cmp(f"ra.nonzero first-use view-kind {kv} {tagc}", "nonzero/first-use-of-derived", nt, lambda: [kl(a) for a in view_of(X, dt, kv).nonzero()],
                          lambda: [[i for i, r in enumerate(X) for j, v in enumerate(r) if np.dtype(dt).type(v) != 0], [j for i, r in enumerate(X) for j, v in enumerate(r) if np.dtype(dt).type(v) != 0]],
                          py=f"<derived array kind {kv} equal to RaggedArray({X}, dtype='{dt}')>.nonzero()")
            M = [[rng.random() < .5 for _ in r] for r in X]
            Y = fill(ls, VALS[dt], si + 4)
            C.cmp(f"where ragged {tagc} {M}", "where", nt, lambda: ra_obs(np.where(RaggedArray(M, dtype=bool), mk(), RaggedArray(Y, dtype=dt))),
                  lambda: rows_obs([np.where(np.array(m, dtype=bool), np.array(a, dtype=dt), np.array(b, dtype=dt)) for m, a, b in zip(M, X, Y)], dt),
                  py=f"np.where(RaggedArray({M}), RaggedArray({X}, dtype='{dt}'), RaggedArray({Y}, dtype='{dt}'))")
            dt2 = dts[(si + rep + 2) % len(dts)]
            Y2 = fill(ls, VALS[dt2], si + 6)
            C.cmp(f"where ragged {tagc} {M} y:{dt2}", "where/dtype-pair", nt, lambda: ra_obs(np.where(RaggedArray(M, dtype=bool), mk(), RaggedArray(Y2, dtype=dt2))),
                  lambda: rows_obs([np.where(np.array(m, dtype=bool), np.array(a, dtype=dt), np.array(b, dtype=dt2)) for m, a, b in zip(M, X, Y2)],
                                   np.where(np.array([], dtype=bool), np.array([], dtype=dt), np.array([], dtype=dt2)).dtype),
                  py=f"np.where(RaggedArray({M}), RaggedArray({X}, dtype='{dt}'), RaggedArray({Y2}, dtype='{dt2}'))")
            sc = VALS[dt][3]
            C.cmp(f"where scalar-y {tagc} {M}", "where", nt, lambda: ra_obs(np.where(RaggedArray(M, dtype=bool), mk(), sc)),
                  lambda: rows_obs([np.where(np.array(m, dtype=bool), np.array(a, dtype=dt), sc) for m, a in zip(M, X)], np.where(np.array([], dtype=bool), np.array([], dtype=dt), sc).dtype))
            C.cmp(f"subset {tagc} {M}", "subset", nt, lambda: ra_obs(mk().subset(RaggedArray(M, dtype=bool))),
                  lambda: rows_obs([np.array(a, dtype=dt)[np.array(m, dtype=bool)] for m, a in zip(M, X)], dt), py=f"RaggedArray({X}, dtype='{dt}').subset(RaggedArray({M}))")
            C.cmp(f"maskindex {tagc} {M}", "mask-index", nt, lambda: ra_obs(mk()[RaggedArray(M, dtype=bool)]),
                  lambda: {"array": kl(np.array([v for m, a in zip(M, X) for v, b in zip(a, m) if b], dtype=dt)), "dtype": dt}, py=f"RaggedArray({X}, dtype='{dt}')[RaggedArray({M})]")
            # ragged_slice: windows [start_i, end_i) within the rows, negative ends from the row end
            if n:
                for _ in range(2):
                    st = [rng.randint(0, l) for l in ls]
                    en = [rng.choice([rng.randint(s, l), -rng.randint(1, l) if l else s]) for s, l in zip(st, ls)]
                    C.cmp(f"rslice {tagc} {st} {en}", "ragged_slice/ragged", nt, lambda: ra_obs(ragged_slice(mk(), np.array(st), np.array(en))),
                          lambda: rows_obs([np.array(r[s:e], dtype=dt) for r, s, e in zip(X, st, en)], dt), py=f"ragged_slice(RaggedArray({X}, dtype='{dt}'), np.array({st}), np.array({en}))")
                    C.cmp(f"rslice ends-only {tagc} {en}", "ragged_slice/ragged", nt, lambda: ra_obs(ragged_slice(mk(), ends=np.array(en))),
                          lambda: rows_obs([np.array(r[:e], dtype=dt) for r, e in zip(X, en)], dt))
                    C.cmp(f"rslice starts-only {tagc} {st}", "ragged_slice/ragged", nt, lambda: ra_obs(ragged_slice(mk(), starts=np.array(st))),
                          lambda: rows_obs([np.array(r[s:], dtype=dt) for r, s in zip(X, st)], dt))
                if rep == 0 and n <= 12:
                    # ends far beyond the rows ("to the end", whatever the number) and far before them (nothing), as int64 vectors
                    st = [rng.randint(0, l) for l in ls]
                    for far in (2 ** 31 - 1, 2 ** 32, 2 ** 40 + 5, -(2 ** 32) - 1, -(2 ** 40)):
                        en = [far] * n
                        C.cmp(f"rslice far-end {tagc} {st} {far}", "ragged_slice/far-bounds", nt, lambda: ra_obs(ragged_slice(mk(), np.array(st, dtype=np.int64), np.array(en, dtype=np.int64))),
                              lambda: rows_obs([np.array(r[s:e], dtype=dt) for r, s, e in zip(X, st, en)], dt), py=f"ragged_slice(RaggedArray({X}, dtype='{dt}'), np.array({st}), np.array({en}, dtype=np.int64))")
                # the same call twice on ONE array object: the array (its rows, its geometry) and the index vectors are left as they were
                st = [rng.randint(0, l) for l in ls]; en = [rng.randint(s, l) for s, l in zip(st, ls)]
                selfobs = lambda: rows_obs([np.array(r, dtype=dt) for r in X], dt)
                def twice(op):
                    a = mk(); r1 = op(a); mid = ra_obs(a); r2 = op(a)
                    return [r1, mid, r2, ra_obs(a)]
                def rs_twice():
                    sa, ea = np.array(st), np.array(en)
                    out = twice(lambda a: ra_obs(ragged_slice(a, sa, ea)))
                    return out + [sa.tolist(), ea.tolist()]
                rs_spec = lambda: rows_obs([np.array(r[s_:e_], dtype=dt) for r, s_, e_ in zip(X, st, en)], dt)
                C.cmp(f"rslice twice {tagc} {st} {en}", "ragged_slice/twice-on-one-object", nt, rs_twice, lambda: [rs_spec(), selfobs(), rs_spec(), selfobs(), st, en],
                      py=f"a = RaggedArray({X}, dtype='{dt}'); ragged_slice(a, np.array({st}), np.array({en})); a; ragged_slice(a, ...) again; a")
                nzs = lambda: [[i for i, r in enumerate(X) for j, v in enumerate(r) if np.dtype(dt).type(v) != 0], [j for i, r in enumerate(X) for j, v in enumerate(r) if np.dtype(dt).type(v) != 0]]
                C.cmp(f"nonzero twice {tagc}", "nonzero/twice-on-one-object", nt, lambda: twice(lambda a: [kl(x) for x in a.nonzero()]), lambda: [nzs(), selfobs(), nzs(), selfobs()],
                      py=f"a = RaggedArray({X}, dtype='{dt}'); a.nonzero(); a; a.nonzero(); a")
                c0 = lambda: rows_obs([np.array(r, dtype=dt) for r in X + X], dt)
                C.cmp(f"concat twice {tagc}", "concatenate/twice-on-one-object", nt, lambda: twice(lambda a: ra_obs(np.concatenate([a, a]))), lambda: [c0(), selfobs(), c0(), selfobs()],
                      py=f"a = RaggedArray({X}, dtype='{dt}'); np.concatenate([a, a]); a; np.concatenate([a, a]); a")
        # 1-D and 2-D inputs (dtype rotates)
        dt = dts[si % len(dts)]
        L = 1 + si % 7
        a1 = [VALS[dt][i % len(VALS[dt])] for i in range(L)]
        k = rng.randint(1, 4)
        st = [rng.randint(0, L) for _ in range(k)]; en = [rng.choice([rng.randint(s, L), -rng.randint(1, L)]) for s in st]
        C.cmp(f"rslice 1d {dt} {a1} {st} {en}", "ragged_slice/1d", True, lambda: ra_obs(ragged_slice(np.array(a1, dtype=dt), np.array(st), np.array(en))),
              lambda: rows_obs([np.array(a1[s:e], dtype=dt) for s, e in zip(st, en)], dt), py=f"ragged_slice(np.array({a1}, dtype='{dt}'), np.array({st}), np.array({en}))")
        # the defaults: starts=None is "from the first element", ends=None "to the last"
        C.cmp(f"rslice 1d ends-only {dt} {a1} {en}", "ragged_slice/1d-ends-only", True, lambda: ra_obs(ragged_slice(np.array(a1, dtype=dt), None, np.array(en))),
              lambda: rows_obs([np.array(a1[:e], dtype=dt) for e in en], dt), py=f"ragged_slice(np.array({a1}, dtype='{dt}'), None, np.array({en}))")
        C.cmp(f"rslice 1d starts-only {dt} {a1} {st}", "ragged_slice/1d-starts-only", True, lambda: ra_obs(ragged_slice(np.array(a1, dtype=dt), np.array(st))),
              lambda: rows_obs([np.array(a1[s:], dtype=dt) for s in st], dt), py=f"ragged_slice(np.array({a1}, dtype='{dt}'), np.array({st}))")
        C.cmp(f"NPSArray[starts:ends] {dt} {a1} {st} {en}", "ragged_slice/NPSArray", True, lambda: ra_obs(np.array(a1, dtype=dt).view(NPSArray)[np.array(st):np.array(en)]),
              lambda: rows_obs([np.array(a1[s:e], dtype=dt) for s, e in zip(st, en)], dt))
        nr, nc = 1 + si % 3, 1 + si % 4
        a2 = [[VALS[dt][(i * nc + j) % len(VALS[dt])] for j in range(nc)] for i in range(nr)]
        st = [rng.randint(0, nc) for _ in range(nr)]; en = [rng.choice([rng.randint(s, nc), -rng.randint(1, nc)]) for s in st]
        C.cmp(f"rslice 2d {dt} {a2} {st} {en}", "ragged_slice/2d", True, lambda: ra_obs(ragged_slice(np.array(a2, dtype=dt), np.array(st), np.array(en))),
              lambda: rows_obs([np.array(r[s:e], dtype=dt) for r, s, e in zip(a2, st, en)], dt), py=f"ragged_slice(np.array({a2}, dtype='{dt}'), np.array({st}), np.array({en}))")
        C.cmp(f"rslice 2d ends-only {dt} {a2} {en}", "ragged_slice/2d-ends-only", True, lambda: ra_obs(ragged_slice(np.array(a2, dtype=dt), None, np.array(en))),
              lambda: rows_obs([np.array(r[:e], dtype=dt) for r, e in zip(a2, en)], dt), py=f"ragged_slice(np.array({a2}, dtype='{dt}'), None, np.array({en}))")
        C.cmp(f"rslice 2d starts-only {dt} {a2} {st}", "ragged_slice/2d-starts-only", True, lambda: ra_obs(ragged_slice(np.array(a2, dtype=dt), np.array(st))),
              lambda: rows_obs([np.array(r[s:], dtype=dt) for r, s in zip(a2, st)], dt), py=f"ragged_slice(np.array({a2}, dtype='{dt}'), np.array({st}))")


def ownership_stage(R, tier, rng):
    """who owns a returned array: the result of an operation and its operand(s) are independent objects - writing into one afterwards
    (a later public call) never shows in the other.  Shapes include rows of equal length, one row, zero-row operands, single-operand lists."""
    import numpy as np
    from npstructures import RaggedArray, ragged_slice
    C = Ctx(R, "ownership")
    shapes = [[2, 2], [3], [1, 1, 1], [2, 0, 1], [0, 2], [3, 3, 3], [1], [2, 1]]
    for si, ls in enumerate(shapes):
        for dt in ("int64", "float64", "int8"):
            X = fill(ls, SMALL[dt], si); n = len(ls); nt = n >= 2
            newv = SMALL[dt][(si + 3) % len(SMALL[dt])] + 1
            mk = lambda: RaggedArray(X, dtype=dt)
            empty = lambda: RaggedArray(X, dtype=dt)[:0]
            ops = [("concatenate([a, a[:0]])", lambda a: np.concatenate([a, empty()])), ("concatenate([a[:0], a])", lambda a: np.concatenate([empty(), a])),
                   ("concatenate([a])", lambda a: np.concatenate([a])), ("concatenate([a, a])", lambda a: np.concatenate([a, a])),
                   ("concatenate([a, zeros_like(a)], axis=1)", lambda a: np.concatenate([a, np.zeros_like(a)], axis=1)),
                   ("concatenate([a, a[:, :0]], axis=1)", lambda a: np.concatenate([a, a[:, :0]], axis=1)),
                   ("as_padded_matrix()", lambda a: a.as_padded_matrix()), ("as_padded_matrix(side='left')", lambda a: a.as_padded_matrix(side="left")),
                   ("astype(same)", lambda a: a.astype(dt)), ("np.where(a == a, a, a)", lambda a: np.where(a == a, a, a)), ("subset(all true)", lambda a: a.subset(a == a)),
                   ("a[a == a]", lambda a: a[a == a]), ("ragged_slice(a, 0s, lengths)", lambda a: ragged_slice(a, np.zeros(n, dtype=int), np.array(ls))),
                   ("a + 0", lambda a: a + 0), ("np.maximum(a, a)", lambda a: np.maximum(a, a)),
                   ("np.cumsum(a, axis=-1)", lambda a: np.cumsum(a, axis=-1) if dt != "float64" else a + 0), ("a.sort(axis=-1)", lambda a: a.sort(axis=-1)), ("np.zeros_like(a) + a", lambda a: np.zeros_like(a) + a)]
            def obs(v):
                return kl(v.tolist()) if hasattr(v, "tolist") else kl(v)
            for name, op in ops:
                def seq():
                    a = mk(); r = op(a); r0 = obs(r)
                    a.fill(newv)                                     # a later write to the operand ...
                    same_result = obs(r) == r0                       # ... does not show in the result
                    a = mk(); r = op(a); a0 = obs(a)
                    if isinstance(r, np.ndarray): r[...] = newv      # a later write into the result ...
                    else: r.fill(newv)
                    return [same_result, obs(a) == a0]               # ... does not show in the operand
                C.cmp(f"{name} {dt} {ls}", "ownership/" + name.split("(")[0], nt, seq, lambda: [True, True],
                      py=f"a = RaggedArray({X}, dtype='{dt}'); r = {name}; a.fill({newv}); r unchanged?  /  r.fill({newv}); a unchanged?")


# ------------------------------------------------------------------------------------------------ C09
@both_variants
def run_c09(R, tier, rng):
    import numpy as np
    from npstructures import RaggedArray
    C = Ctx(R, "column")
    sh = [ls for ls in shapes_for(tier, rng, quick_alpha=(0, 1, 2, 4), maxrows=4) if ls and max(ls) > 0]
    for _ in range(40 if tier == "thorough" else 10):
        sh.append([rng.choice([0, 1, 1, 2, 30, 17]) for _ in range(rng.randint(2, 8))])
    sh = [ls for ls in sh if max(ls) > 0]
    dts = ["bool", "int8", "int32", "int64", "uint8", "uint64", "float32", "float64"]
    BIG = dict(SMALL); BIG["int64"] = [2 ** 53 + 1, 1, 1, -(2 ** 62), 2 ** 60 + 1, 3]; BIG["uint64"] = [2 ** 64 - 1, 1, 2 ** 53 + 1, 2, 2 ** 63]
    # float columns holding one large and many small addends: the exact sum is representable, a narrow accumulator loses the small ones
    import math
    for dt, big in (("float32", 2.0 ** 24),):      # float64 is itself the accumulator: nothing wider to compare with
        for nsmall in (50, 200):
            X = [[big, 2.0]] + [[2.0, 2.0, 2.0][:1 + (i % 3)] for i in range(nsmall)] + [[]]
            m_ = 3
            X = [[big, 2.0]] + [[1.0, 2.0, 2.0][:1 + (i % 3)] for i in range(nsmall)] + [[]]
            exact = [math.fsum(r[j] for r in X if len(r) > j) for j in range(m_)]
            cnt = [sum(1 for r in X if len(r) > j) for j in range(m_)]
            C.cmp(f"sum(axis=0) {dt}/big+small n={nsmall}", "colsum-precision", True, lambda: [key(float(x)) for x in RA(X, dt).sum(axis=0)], lambda: [key(x) for x in exact],
                  py=f"RaggedArray([[{big}, 2.0]] + {nsmall} rows starting with 1.0, dtype='{dt}').sum(axis=0)")
            C.cmp(f"mean(axis=0) {dt}/big+small n={nsmall}", "colmean-precision", True, lambda: [key(float(np.dtype(dt).type(x))) for x in RA(X, dt).mean(axis=0)],
                  lambda: [key(float(np.dtype(dt).type(e / c))) for e, c in zip(exact, cnt)], py=f"RaggedArray([[{big}, 2.0]] + {nsmall} rows of 2.0s, dtype='{dt}').mean(axis=0)")
    # half precision: ordinary values whose column SUM does not fit a float16 although every value and the mean do
    X16 = [[1000.0 + 40 * i, 3.0][:1 + i % 2] for i in range(47)]
    c16 = [np.array([r[j] for r in X16 if len(r) > j], dtype="float16") for j in range(2)]
    with np.errstate(all="ignore"):
        C.cmp("mean(axis=0) float16, column sum beyond 65504", "colmean/float16", True, lambda: [key(float(x)) for x in RA(X16, "float16").mean(axis=0)],
              lambda: [key(float(np.mean(c_))) for c_ in c16], py="RaggedArray([[1000.0 + 40*i, 3.0][:1 + i % 2] for i in range(47)], dtype='float16').mean(axis=0)")
    # the column index given as a narrow numpy integer scalar, on a long lazily derived strided array
    long_rows = [list(range(300)), list(range(1000, 1250)), list(range(5000, 5290)), [7]]
    for cstep in (2, 3, -2):
        for j in (np.int8(100), np.uint8(70), np.int16(90), np.int8(0)):
            exp = [r[::cstep][int(j)] for r in long_rows if len(r[::cstep]) > int(j)]
            C.cmp(f"get_column_values({type(j).__name__}({int(j)})) on [:, ::{cstep}] of long rows", "get_column_values/narrow-scalar", True,
                  lambda: np.asarray(RaggedArray(long_rows)[:, ::cstep].get_column_values(j)).tolist(), lambda: exp,
                  py=f"RaggedArray([range(300), range(1000,1250), range(5000,5290), [7]])[:, ::{cstep}].get_column_values(np.{type(j).__name__}({int(j)}))")
    MIN, MAX = -2 ** 63, 2 ** 63 - 1
    for X in ([[MIN], [1]], [[MIN, 5], [1], [2, -3]], [[MAX], [-1], []], [[MIN + 1, 0], [-1, MAX], [0, -MAX]], [[1], [MIN], [1], [1]]):
        m_ = max(len(r) for r in X)
        exact = [sum(r[j] for r in X if len(r) > j) for j in range(m_)]
        C.cmp(f"sum(axis=0) int64 extremes {X}", "colsum/int64-extremes", True, lambda: [int(x) for x in RaggedArray(X, dtype=np.int64).sum(axis=0)], lambda: exact, py=f"RaggedArray({X}, dtype=np.int64).sum(axis=0)")
        C.cmp(f"np.sum(axis=0) int64 extremes {X}", "colsum/int64-extremes", True, lambda: [int(x) for x in np.sum(RaggedArray(X, dtype=np.int64), axis=0)], lambda: exact)
    # more than 2**16 elements (beyond any plausible size threshold); columns with non-integer means
    hl = [4] * 16500 + [2, 0, 7]
    for dt in ("int64", "bool", "uint8", "int32", "float64"):
        hv = [(70000 if isinstance(v, int) and abs(v) > 2 ** 31 else v) for v in SMALL[dt]]      # every column sum stays exactly representable
        HX = fill(hl, hv, 1); hm = max(hl)
        hcols = [np.array([r[j] for r in HX if len(r) > j], dtype=dt) for j in range(hm)]
        C.cmp(f"mean(axis=0) {dt} {len(hl)} rows / {sum(hl)} elements", "colmean/huge", True, lambda: [key(float(x)) for x in RA(HX, dt).mean(axis=0)],
              lambda: [key(float(np.mean(c_))) for c_ in hcols], py=f"RaggedArray(fill([4]*16500+[2,0,7], {hv}), dtype='{dt}').mean(axis=0)")
        C.cmp(f"sum(axis=0) {dt} {len(hl)} rows / {sum(hl)} elements", "colsum/huge", True, lambda: [key(float(x)) for x in RA(HX, dt).sum(axis=0)],
              lambda: [key(float(np.count_nonzero(c_) if dt == "bool" else c_.sum())) for c_ in hcols], py=f"RaggedArray(fill([4]*16500+[2,0,7], {hv}), dtype='{dt}').sum(axis=0)")
        C.cmp(f"col_counts {dt} {len(hl)} rows", "col_counts/huge", True, lambda: [int(x) for x in RA(HX, dt).col_counts()], lambda: [len(c_) for c_ in hcols])
        C.cmp(f"get_column_values(3) {dt} {len(hl)} rows", "get_column_values/huge", True, lambda: kl(RA(HX, dt).get_column_values(3)), lambda: kl(hcols[3]))
    # millions of rows of a 32-bit type whose column sums pass 2**53: the sum is the exact integer (numpy's own sum of the column), not a rounded float
    if VARIANT[0] == "fresh":
        nrow = 2300000
        hl2 = np.ones(nrow, dtype=np.int64); hl2[5] = 0; hl2[7] = 3; hl2[-1] = 2
        for dt, lo in (("uint32", 2 ** 32 - 2 ** 20), ("int32", -2 ** 31)):
            flat = (np.arange(int(hl2.sum()), dtype=np.int64) % 1000 + lo).astype(dt)
            starts_ = np.cumsum(hl2) - hl2
            exact = [int(flat[starts_[hl2 > j] + j].astype(object).sum()) for j in range(3)]
            if dt == "int32" and tier != "thorough": continue
            C.cmp(f"sum(axis=0) {dt} {nrow} rows, column sums beyond 2**53", "colsum/millions-of-rows", True, lambda: [int(x) for x in RaggedArray(flat, hl2).sum(axis=0)], lambda: exact,
                  py=f"l = np.ones({nrow}, int); l[5] = 0; l[7] = 3; l[-1] = 2; RaggedArray((np.arange(l.sum()) % 1000 + {lo}).astype('{dt}'), l).sum(axis=0)")
    for si, ls in enumerate(sh):
        n = len(ls); nt = n >= 2
        m = max(ls)
        for rep in range(len(dts) if (tier == "thorough" or si < 300) else 2):
            dt = dts[(si + rep) % len(dts)]
            for vn, table in (("small", SMALL), ("big", BIG)):
                if vn == "big" and dt not in ("int64", "uint64"): continue
                X = fill(ls, table[dt], si); mk = lambda: RA(X, dt)
                tagc = f"{dt}/{vn} {ls}"
                def colsum():
                    out = []
                    for j in range(m):
                        col = np.array([r[j] for r in X if len(r) > j], dtype=dt)
                        out.append(int(np.count_nonzero(col)) if dt == "bool" else col.sum())
                    return out
                def canon_sum(v):
                    v = np.asarray(v)
                    # exact comparison on values: integers as Python ints, floats by value (all sums are exactly representable by construction)
                    return [key(float(x)) if dt.startswith("float") else int(x) for x in v]
                C.cmp("sum(axis=0) " + tagc, "colsum", nt, lambda: canon_sum(mk().sum(axis=0)), lambda: [key(float(x)) if dt.startswith("float") else int(x) for x in colsum()],
                      py=f"RaggedArray({X}, dtype='{dt}').sum(axis=0)")
                C.cmp("np.sum(axis=0) " + tagc, "colsum", nt, lambda: canon_sum(np.sum(mk(), axis=0)), lambda: [key(float(x)) if dt.startswith("float") else int(x) for x in colsum()])
                counts = [sum(1 for l in ls if l > j) for j in range(m)]
                C.cmp("col_counts " + tagc, "col_counts", nt, lambda: [int(x) for x in mk().col_counts()], lambda: counts, py=f"RaggedArray({X}, dtype='{dt}').col_counts()")
                if vn == "small" or n <= 3:
                    C.cmp("mean(axis=0) " + tagc, "colmean", nt, lambda: [key(float(x)) for x in mk().mean(axis=0)],
                          lambda: [key(float(np.mean(np.array([r[j] for r in X if len(r) > j], dtype=dt)))) for j in range(m)], py=f"RaggedArray({X}, dtype='{dt}').mean(axis=0)")
                if vn == "small" and rep < 3:
                    # the column aggregates asked twice of ONE object, and of an object derived from it (shared geometry): nothing is remembered wrongly
                    cs_ = lambda: [key(float(x)) if dt.startswith("float") else int(x) for x in colsum()]
                    def twice():
                        a = mk()
                        c1 = [int(x) for x in a.col_counts()]; c2 = [int(x) for x in a.col_counts()]; s1 = canon_sum(a.sum(axis=0)); s2 = canon_sum(a.sum(axis=0))
                        m1 = [key(float(x)) for x in a.mean(axis=0)]; m2 = [key(float(x)) for x in a.mean(axis=0)]
                        c3 = [int(x) for x in (a == a).col_counts()]; c4 = [int(x) for x in a.col_counts()]
                        return [c1, c2, s1, s2, m1 == m2, c3, c4, c1]          # c1 again: the first answer is not changed afterwards
                    C.cmp("column aggregates twice " + tagc, "twice-on-one-object", nt, twice, lambda: [counts, counts, cs_(), cs_(), True, counts, counts, counts],
                          py=f"a = RaggedArray({X}, dtype='{dt}'); a.col_counts() x2; a.sum(axis=0) x2; a.mean(axis=0) x2; (a == a).col_counts(); a.col_counts()")
                for j in range(min(m, 5)):
                    C.cmp(f"get_column_values({j}) " + tagc, "get_column_values", nt, lambda: ra_obs(mk().get_column_values(j)),
                          lambda: {"array": kl(np.array([r[j] for r in X if len(r) > j], dtype=dt)), "dtype": dt}, py=f"RaggedArray({X}, dtype='{dt}').get_column_values({j})")


# ------------------------------------------------------------------------------------------------ stateful sequences
def run_sequences(R, tier, rng, which):
    """operations repeated on ONE array object with a mutation in between (caches, flags and memoised intermediates must not go stale),
    and the array itself must be unchanged by reading operations.  which: 'reduce' (C05) | 'scan' (C07) | 'ufunc' (C04)"""
    import numpy as np
    from npstructures import RaggedArray
    C = Ctx(R, "seq-" + which)
    sh = [ls for ls in shapes_for(tier, rng, quick_alpha=(0, 1, 3), maxrows=4) if sum(ls) > 0]
    dts = ["int8", "int64", "uint8", "float32", "float64", "bool"]
    for si, ls in enumerate(sh):
        if tier != "thorough" and si % 2: continue
        n = len(ls); nt = n >= 2
        dt = dts[si % len(dts)]
        X = fill(ls, SMALL[dt], si)
        cells = [(i, j) for i, l in enumerate(ls) for j in range(l)]
        ci, cj = cells[si % len(cells)]
        newv = SMALL[dt][(si + 2) % len(SMALL[dt])]
        fillv = SMALL[dt][(si + 1) % len(SMALL[dt])]
        X_set = [list(r) for r in X]; X_set[ci][cj] = newv
        X_fill = [[fillv for _ in r] for r in X]
        def mutate(a, how):
            if how == "setitem": a[ci, cj] = newv; return X_set
            if how == "fill": a.fill(fillv); return X_fill
            if how == "row": a[ci] = newv; return [[newv] * len(r) if i == ci else list(r) for i, r in enumerate(X)]
        for how in ("setitem", "fill", "row"):
            tag = f"{dt} {ls} {how}"
            if which == "reduce":
                for meth in ("sum", "prod", "max", "min", "mean", "any", "all", "argmax", "argmin"):
                    if meth in ("max", "min", "mean", "argmax", "argmin") and 0 in ls: continue
                    f = getattr(np, meth)
                    def seq():
                        a = RA(X, dt); r1 = kl(getattr(a, meth)(axis=-1)); same = kl(a.tolist())
                        Xn = mutate(a, how); r2 = getattr(a, meth)(axis=-1)
                        getattr(a, meth)(axis=-1)            # a second call must not disturb anything either
                        return [r1, same, kl(r2), kl(a.tolist())]
                    def spec():
                        Xn = mutate(RaggedArray(X, dtype=dt), how)
                        return [kl(np.array([f(np.array(r, dtype=dt)) for r in X])), kl([np.array(r, dtype=dt) for r in X]),
                                kl(np.array([f(np.array(r, dtype=dt)) for r in Xn])), kl([np.array(r, dtype=dt) for r in Xn])]
                    C.cmp(f"{meth} {tag}", "reduce-mutate-reduce/" + meth, nt, seq, spec,
                          py=f"a = RaggedArray({X}, dtype='{dt}'); a.{meth}(axis=-1); <{how}>; a.{meth}(axis=-1)  (first result, array after the read, second result, array)")
            if which == "reduce" and how == "setitem":
                FIRST = ("sum", "prod", "mean", "any", "all", "max", "min")
                SECOND = ("argmax", "argmin", "max", "min", "sum", "mean")
                for m1 in FIRST:
                    for m2 in SECOND:
                        if 0 in ls and (m1 in ("max", "min", "mean") or m2 in ("argmax", "argmin", "max", "min", "mean")): continue
                        f2 = getattr(np, m2)
                        # floats that are not exactly summable: a column rebuilt by differences and running sums would not compare equal
                        # (only where the second operation is exact: the order of a floating-point summation is numpy's business)
                        X2 = fill(ls, [0.1, 0.7, 0.3, 0.2, 1e16, 0.9, 0.4, 2.0], si) if dt.startswith("float") and m2 in ("argmax", "argmin", "max", "min") else X
                        def seq2():
                            a = RA(X2, dt); getattr(a, m1)(axis=-1)
                            return kl(getattr(a, m2)(axis=-1))
                        C.cmp(f"{m1} then {m2} {dt} {ls}", "reduce-then-reduce/" + m2, nt, seq2, lambda: kl(np.array([f2(np.array(r, dtype=dt)) for r in X2])),
                              py=f"a = RaggedArray({X2}, dtype='{dt}'); a.{m1}(axis=-1); a.{m2}(axis=-1)")
            if which == "scan":
                ops = [("cumsum", lambda a: np.cumsum(a, axis=-1), lambda r: np.cumsum(r))] if dt.startswith(("int", "uint")) else []
                ops += [("add.accumulate", lambda a: np.add.accumulate(a, axis=-1), lambda r: np.add.accumulate(r)), ("sort", lambda a: a.sort(axis=-1), lambda r: np.sort(r, kind="stable")),
                        ("diff", lambda a: np.diff(a, axis=-1), lambda r: np.diff(r)), ("unique", lambda a: np.unique(a, axis=-1), lambda r: np.unique(r))]
                if dt != "bool": ops.append(("subtract.accumulate", lambda a: np.subtract.accumulate(a, axis=-1), lambda r: np.subtract.accumulate(r)))
                for name, fi, fs in ops:
                    def seq():
                        a = RA(X, dt); r1 = kl(fi(a).tolist()); same = kl(a.tolist())
                        mutate(a, how); r2 = kl(fi(a).tolist())
                        return [r1, same, r2, kl(a.tolist())]
                    def spec():
                        Xn = mutate(RaggedArray(X, dtype=dt), how)
                        return [[kl(fs(np.array(r, dtype=dt))) for r in X], [kl(np.array(r, dtype=dt)) for r in X], [kl(fs(np.array(r, dtype=dt))) for r in Xn], [kl(np.array(r, dtype=dt)) for r in Xn]]
                    C.cmp(f"{name} {tag}", "scan-mutate-scan/" + name, nt, seq, spec, py=f"a = RaggedArray({X}, dtype='{dt}'); {name}(a); <{how}>; {name}(a)")
        if which == "ufunc" and n:
            # two column-vector ufuncs in a row on one array object (and on arrays derived from it: the shape object is shared)
            big = {"float32": [1e16, 1.0, 3.0, 0.1, float("inf"), 2.0], "float64": [1e16, 1.0, 3.0, 0.1, float("inf"), 2.0]}.get(dt, SMALL[dt])
            col1 = [big[(si + i) % len(big)] for i in range(n)]; col2 = [big[(si + 2 + i) % len(big)] for i in range(n)]
            c1 = np.array(col1, dtype=dt)[:, None]; c2 = np.array(col2, dtype=dt)[:, None]
            for first in ("greater", "subtract", "add"):
                f1 = getattr(np, first)
                if dt == "bool" and first == "subtract": continue
                def seq():
                    a = RA(X, dt); r1 = ra_obs(f1(a, c1)); b = a * 1 if dt != "bool" else a
                    r2 = ra_obs(np.multiply(a, c2) if dt != "bool" else np.logical_and(a, c2)); r3 = ra_obs(np.add(b, c2) if dt != "bool" else np.logical_or(b, c2))
                    return [r1, r2, r3, kl(a.tolist())]
                def spec():
                    rows = [np.array(r, dtype=dt) for r in X]
                    o1 = rows_obs([f1(r, c1[i, 0]) for i, r in enumerate(rows)], f1(np.array([], dtype=dt), c1[0, 0]).dtype)
                    m = (lambda r, c: np.multiply(r, c)) if dt != "bool" else (lambda r, c: np.logical_and(r, c))
                    ad = (lambda r, c: np.add(r, c)) if dt != "bool" else (lambda r, c: np.logical_or(r, c))
                    o2 = rows_obs([m(r, c2[i, 0]) for i, r in enumerate(rows)], m(np.array([], dtype=dt), c2[0, 0]).dtype)
                    o3 = rows_obs([ad(r * 1 if dt != "bool" else r, c2[i, 0]) for i, r in enumerate(rows)], ad(np.array([], dtype=dt) * 1 if dt != "bool" else np.array([], dtype=dt), c2[0, 0]).dtype)
                    return [o1, o2, o3, [kl(r) for r in rows]]
                C.cmp(f"{first} then multiply/add {dt} {ls} {col1} {col2}", "ufunc-sequence/" + first, nt, seq, spec,
                      py=f"a = RaggedArray({X}, dtype='{dt}'); np.{first}(a, col({col1})); b = a*1; np.multiply(a, col({col2})); np.add(b, col({col2}))")


# ------------------------------------------------------------------------------------------------ C03 across dtypes
def _addr(lens, idx):
    """addressed cells of an index expression as rows of (row, col) pairs, by plain Python list semantics; squeezed = a single row"""
    cells = [[(i, j) for j in range(l)] for i, l in enumerate(lens)]
    if idx is Ellipsis: return cells, False
    r, c = idx if isinstance(idx, tuple) else (idx, None)
    squeezed = isinstance(r, int)
    if isinstance(r, int): rows = [cells[r]]
    elif isinstance(r, slice): rows = cells[r]
    elif r and isinstance(r[0], bool):
        assert len(r) == len(cells); rows = [row for row, b in zip(cells, r) if b]
    else: rows = [cells[i] for i in r]
    if c is not None: rows = [row[c] for row in rows]
    return rows, squeezed


@both_variants
def run_c03(R, tier, rng):
    import numpy as np
    from npstructures import RaggedArray
    C = Ctx(R, "assign")
    sh = [ls for ls in shapes_for(tier, rng) if ls]
    dts = ["bool", "int8", "int64", "uint8", "float32", "float64"]
    HARD = dict(VALS); HARD["float32"] = [1e16, 1.0, 3.0, float("inf"), 0.1, -2.25]; HARD["float64"] = [1e16, 1.0, 3.0, float("inf"), 0.1, -2.25]
    for si, ls in enumerate(sh):
        n = len(ls); nt = n >= 2 and sum(ls) > 0
        dt = dts[si % len(dts)]
        X = fill(ls, VALS[dt], si)
        pool = HARD[dt]
        idxs = [slice(None), slice(1, None), slice(None, None, -1), slice(None, None, 2), Ellipsis, [n - 1], list(range(n))[::-1], [i % 2 == 0 for i in range(n)],
                (slice(None), slice(1, None)), (slice(None), slice(None, None, -1)), (slice(None, None, -1), slice(None, None, 2)), (slice(None), slice(None, -1)), 0, n - 1, -1]
        for k, idx in enumerate(idxs):
            if tier != "thorough" and (si + k) % 3: continue
            try: rows, squeezed = _addr(ls, idx)
            except Exception: continue
            sel_lens = [len(r) for r in rows]
            vals = iter(pool[(si + k + t) % len(pool)] for t in range(10 ** 6))
            kinds = [("scalar", next(vals))]
            if not squeezed and rows:
                kinds.append(("column", [[next(vals)] for _ in rows]))
                kinds.append(("ragged", [[next(vals) for _ in r] for r in rows]))
                if sum(sel_lens): kinds.append(("ragged-mismatch", [[next(vals) for _ in r] + [next(vals)] if i == 0 else [next(vals) for _ in r] for i, r in enumerate(rows)]))
            if squeezed: kinds.append(("flat", [next(vals) for _ in rows[0]]))
            for vk, v in kinds:
                def impl():
                    a = RA(X, dt)
                    ix = tuple(np.array(x) if isinstance(x, list) else x for x in idx) if isinstance(idx, tuple) else (np.array(idx) if isinstance(idx, list) else idx)
                    if isinstance(ix, np.ndarray) and ix.size == 0: ix = np.array([], dtype=int)
                    val = v if vk == "scalar" else np.array(v, dtype=dt) if vk in ("column", "flat") else (RaggedArray(v, dtype=dt) if (si + k) % 2 else view_of(v, dt, si + k))   # the value operand may itself be a lazy view
                    a[ix] = val
                    return {"rows": kl(a.tolist()), "dtype": str(a.dtype), "lens": np.asarray(a.lengths).tolist()}
                def spec():
                    if vk == "ragged-mismatch": raise ValueError("row lengths of the value differ from the selection")
                    Y = [list(r) for r in X]
                    for ri, row in enumerate(rows):
                        for ci, (i, j) in enumerate(row):
                            Y[i][j] = v if vk == "scalar" else v[ri][0] if vk == "column" else v[ri][ci] if vk == "ragged" else v[ci]
                    return rows_obs([np.array(r, dtype=dt) for r in Y], dt)
                C.cmp(f"{dt} {ls} [{idx!r}] = {vk} {v!r}", "assign/" + vk, nt, impl, spec, py=f"a = RaggedArray({X}, dtype='{dt}'); a[{idx!r}] = {vk}:{v!r}; a.tolist()")
        # assignment through a boolean ragged mask: a scalar everywhere, or one value per true cell in row-major order
        M = [[rng.random() < .5 for _ in r] for r in X]
        true_cells = [(i, j) for i, r in enumerate(M) for j, b in enumerate(r) if b]
        for vk in ("scalar", "per-cell"):
            v = pool[si % len(pool)] if vk == "scalar" else [pool[(si + t) % len(pool)] for t in range(len(true_cells))]
            def impl():
                a = RA(X, dt); a[RaggedArray(M, dtype=bool)] = v if vk == "scalar" else np.array(v, dtype=dt)
                return {"rows": kl(a.tolist()), "dtype": str(a.dtype), "lens": np.asarray(a.lengths).tolist()}
            def spec():
                Y = [list(r) for r in X]
                for t, (i, j) in enumerate(true_cells): Y[i][j] = v if vk == "scalar" else v[t]
                return rows_obs([np.array(r, dtype=dt) for r in Y], dt)
            C.cmp(f"{dt} {ls} [ragged mask {M}] = {vk} {v!r}", "assign-mask/" + vk, nt, impl, spec, py=f"a = RaggedArray({X}, dtype='{dt}'); a[RaggedArray({M})] = {v!r}; a.tolist()")
