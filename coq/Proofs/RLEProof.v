From NPS Require Import ListAux PySlice Scatter BuildIdx XorBroadcast XorProof RLE.
Open Scope Z_scope.

Section RP.
Variable A : Type.
Variable dflt : A.
Variable neqb : A -> A -> bool.
Hypothesis neqb_false_eq : forall x y, neqb x y = false -> x = y.

Notation fnz_from := RLE.fnz_from.
Notation from_array := (from_array A dflt neqb).
Notation decode := (decode A).

Fixpoint nmask (prev : A) (a : list A) : list bool :=
  match a with [] => [] | x :: xs => neqb prev x :: nmask x xs end.

Lemma nmask_length x xs : length (nmask x xs) = length xs.
Proof. revert x; induction xs; intros; cbn; auto. Qed.

Lemma last_cons_default {X} : forall (l : list X) x d, last (x :: l) d = last l x.
Proof. induction l as [|y l IH]; intros x d; [reflexivity|]. change (last (x :: y :: l) d) with (last (y :: l) d). now rewrite !IH. Qed.

Lemma M_char d : forall xs x, map2 neqb (x :: xs) (xs ++ [d]) = nmask x xs ++ [neqb (last xs x) d].
Proof.
  induction xs as [|y ys IH]; intros x; [reflexivity|].
  change (map2 neqb (x :: y :: ys) ((y :: ys) ++ [d])) with (neqb x y :: map2 neqb (y :: ys) (ys ++ [d])).
  rewrite IH. cbn [nmask app]. do 3 f_equal. f_equal. symmetry. apply last_cons_default.
Qed.

Lemma mask_char x xs :
  set_last (set_first (map2 neqb (dflt :: x :: xs) ((x :: xs) ++ [dflt])) true) true = true :: nmask x xs ++ [true].
Proof.
  change (map2 neqb (dflt :: x :: xs) ((x :: xs) ++ [dflt])) with (neqb dflt x :: map2 neqb (x :: xs) (xs ++ [dflt])).
  rewrite M_char. cbn [set_first]. unfold set_last.
  change (true :: nmask x xs ++ [neqb (last xs x) dflt]) with ((true :: nmask x xs) ++ [neqb (last xs x) dflt]).
  destruct ((true :: nmask x xs) ++ [neqb (last xs x) dflt]) eqn:E; [destruct (nmask x xs); discriminate|].
  rewrite <- E. now rewrite removelast_last.
Qed.

Lemma fnz_from_app off m1 m2 : fnz_from off (m1 ++ m2) = fnz_from off m1 ++ fnz_from (off + zlen m1) m2.
Proof.
  revert off; induction m1 as [|b m1 IH]; intros off; cbn [app RLE.fnz_from].
  - f_equal. unfold zlen; cbn; lia.
  - replace (off + zlen (b :: m1)) with (off + 1 + zlen m1) by (unfold zlen; cbn [length]; lia).
    destruct b; cbn [app]; now rewrite IH.
Qed.

Lemma fnz_from_ge off m : Forall (fun p => off <= p) (fnz_from off m).
Proof.
  revert off; induction m as [|b m IH]; intros off; cbn; [constructor|].
  assert (H : Forall (fun p => off <= p) (fnz_from (off + 1) m)) by (eapply Forall_impl; [|apply IH]; cbn; intros; lia).
  destruct b; [constructor; [lia|exact H]|exact H].
Qed.

Lemma from_array_cons x xs :
  from_array (x :: xs) =
  (0 :: fnz_from 1 (nmask x xs) ++ [1 + zlen xs],
   map (znth dflt (x :: xs)) (0 :: fnz_from 1 (nmask x xs))).
Proof.
  unfold RLE.from_array. rewrite mask_char. unfold flatnonzero. cbn [RLE.fnz_from].
  rewrite fnz_from_app. cbn [RLE.fnz_from]. replace (0 + 1) with 1 by lia.
  unfold zlen at 1. rewrite nmask_length. fold (zlen xs).
  assert (E : forall e, removelast (0 :: fnz_from 1 (nmask x xs) ++ [e]) = 0 :: fnz_from 1 (nmask x xs)).
  { intros e. change (0 :: fnz_from 1 (nmask x xs) ++ [e]) with ((0 :: fnz_from 1 (nmask x xs)) ++ [e]).
    apply removelast_last. }
  now rewrite E.
Qed.

(* spec_broadcast / diffs unfolding *)
Lemma spec_broadcast_cons v vs l ls : spec_broadcast A (v :: vs) (l :: ls) = repeat v (Z.to_nat l) ++ spec_broadcast A vs ls.
Proof. reflexivity. Qed.
Lemma diffs_cons2 a b r : diffs (a :: b :: r) = (b - a) :: diffs (b :: r).
Proof. unfold diffs. cbn [tl removelast map2]. reflexivity. Qed.

Lemma enc_dec : forall xs x pre,
  let a := pre ++ x :: xs in let s := zlen pre in
  let idx := s :: fnz_from (s + 1) (nmask x xs) in
  spec_broadcast A (map (znth dflt a) idx) (diffs (idx ++ [s + 1 + zlen xs])) = x :: xs.
Proof.
  induction xs as [|y ys IH]; intros x pre; cbn zeta.
  - cbn [nmask RLE.fnz_from map app]. rewrite diffs_cons2. rewrite znth_app_at, spec_broadcast_cons.
    replace (Z.to_nat (zlen pre + 1 + zlen (@nil A) - zlen pre)) with 1%nat by (unfold zlen; cbn [length]; lia).
    reflexivity.
  - specialize (IH y (pre ++ [x])). cbn zeta in IH.
    assert (Hz : zlen (pre ++ [x]) = zlen pre + 1) by (unfold zlen; rewrite app_length; cbn; lia).
    rewrite Hz in IH. rewrite <- app_assoc in IH. cbn [app] in IH.
    replace (zlen pre + 1 + 1) with (zlen pre + 2) in IH by lia.
    replace (zlen pre + 1 + zlen (y :: ys)) with (zlen pre + 2 + zlen ys) by (unfold zlen; cbn [length]; lia).
    cbn [nmask RLE.fnz_from]. replace (zlen pre + 1 + 1) with (zlen pre + 2) by lia.
    set (T := fnz_from (zlen pre + 2) (nmask y ys)) in *.
    set (a := pre ++ x :: y :: ys) in *.
    assert (Hx : znth dflt a (zlen pre) = x) by apply znth_app_at.
    assert (Hy : znth dflt a (zlen pre + 1) = y).
    { unfold a. change (pre ++ x :: y :: ys) with (pre ++ [x] ++ y :: ys). rewrite app_assoc, <- Hz. apply znth_app_at. }
    destruct (neqb x y) eqn:E.
    + cbn [map app]. rewrite diffs_cons2. rewrite Hx. cbn [map app] in IH.
      rewrite spec_broadcast_cons. replace (Z.to_nat (zlen pre + 1 - zlen pre)) with 1%nat by lia. cbn [repeat app].
      f_equal. exact IH.
    + apply neqb_false_eq in E. cbn [map app] in *.
      rewrite Hx. rewrite Hy in IH. rewrite E.
      destruct (T ++ [zlen pre + 2 + zlen ys]) as [|t0 r] eqn:ET; [destruct T; discriminate|].
      rewrite diffs_cons2 in *. rewrite spec_broadcast_cons in *.
      assert (Ht0 : zlen pre + 2 <= t0).
      { assert (F : Forall (fun p => zlen pre + 2 <= p) (T ++ [zlen pre + 2 + zlen ys])).
        { apply Forall_app. split; [apply fnz_from_ge|]. constructor; [unfold zlen; lia|constructor]. }
        rewrite ET in F. now inversion F. }
      replace (Z.to_nat (t0 - zlen pre)) with (S (Z.to_nat (t0 - (zlen pre + 1)))) by lia.
      cbn [repeat app]. f_equal. exact IH.
Qed.

Theorem decode_from_array a : a <> [] -> decode (from_array a) = a.
Proof.
  destruct a as [|x xs]; [congruence|]. intros _. rewrite from_array_cons. unfold RLE.decode. cbn [fst snd].
  pose proof (enc_dec xs x []) as H. cbn zeta in H. cbn [app] in H. unfold zlen at 1 2 3 in H. cbn [length Z.of_nat] in H.
  replace (0 + 1) with 1 in H by lia. exact H.
Qed.
End RP.
Print Assumptions decode_from_array.
