"""C08 — structural array functions: correspondence of the implementation with the Coq models."""
import vlib
from harness import fam_raops, fam_ra2
TRUSTED = fam_raops.TRUSTED
ASSUME = ["integer element values (element operations and result dtypes are numpy's own; floats only with exactly representable results)"]
RULE = "operations: nonzero subset rslice padded where like concat1; " + fam_raops.RULE
def run(R, tier, rng):
    fam_raops.run_family(R, tier, rng, set("nonzero subset rslice padded where like concat1".split()))
    fam_ra2.run_c08(R, tier, rng)
    fam_ra2.ownership_stage(R, tier, rng)


def translator_tie():
    return vlib.translator_tie(["rslice"])
